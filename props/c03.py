"""C03 - well-formed IL: structural clauses of the emitter.

C03.a  terminator-once: funcjmp/funcjnz/funcret/funchlt only set a jump on a block that has none (E-AI on each, both states)
C03.c  bookkeeping fields that are written but never read (a belief never enforced): e.g. gotolabel.defined
C03.g  block graphs of ?: / && / || lowering (nested, with a no-return call in an arm): every phi source is a real
       predecessor of the phi's block, every block has one terminator or falls through, nothing follows a terminator
C03.h  string data items: units emitted and zero fill add up to exactly the object size for every width/length/size
C03.e  status 0 only after flush + terminal ferror test (shared with C19.g)
C03.f  diagnostics never go to stdout; the emitters never write to stderr
"""
import facts
from facts import AnalysisBroken, children, unwrap, unwrap_all, walk
from eai import Interp, Obj, Ptr, Sym, SV, Terminal, Unsupported, StructVal, explore, read_cstr, UNINIT
import cmodel
from cmodel import World, ev
from cfg import cfgs, callee_name
from props import c19

TECHNIQUE = 'abstract interpretation of the block-building primitives on abstract block objects (graph invariants of every lowering arm), E-AI table of dataitem, AST field-usage and stream-usage rules, CFG dominator rule for the exit discipline'


def be_models(prog):
    M = {}
    M['error'] = lambda it, a, e: (_ for _ in ()).throw(Terminal('error', a))
    M['fatal'] = lambda it, a, e: (_ for _ in ()).throw(Terminal('fatal', a))
    M['xmalloc'] = lambda it, a, e: Ptr(Obj('heap@%s' % e.get('line'), 'heap'), ())
    M['xreallocarray'] = lambda it, a, e: Ptr(Obj('arr', 'heap'), (0,))
    def arrayaddptr(it, args, e):
        a, v = args
        lst = it.user.setdefault('arrays', {}).setdefault((a.obj.id, a.path), [])
        lst.append(v)
        return None
    M['arrayaddptr'] = arrayaddptr
    M['emittype'] = lambda it, a, e: None
    M['calcvla'] = lambda it, a, e: None
    return M


def mkfuncobj(it, prog):
    """a struct func with a start block, as mkfunc leaves it"""
    mkblock = prog.require_func('mkblock')
    f = Obj('func', 'heap')
    name = Ptr(it.mkstr(list(b'start'), 'start'), (0,))
    b = it.call(mkblock, [name])
    f.f[('start',)] = b; f.f[('end',)] = b; f.f[('lastid',)] = 0
    return Ptr(f, ())


def blocks(it, f):
    out = []
    b = it.load(f.obj, ('start',))
    seen = set()
    while b is not None:
        if b.obj.id in seen:
            raise Unsupported('block list is cyclic')
        seen.add(b.obj.id)
        out.append(b)
        b = b.obj.f.get(('next',))
    return out


def rule_terminators(chk, prog, tier):
    r = chk.rule('C03.a', 'a block receives at most one terminator: funcjmp/funcjnz/funcret/funchlt leave an already terminated block untouched; funcinst opens a fresh block after a terminator',
                 floor=9)
    M = be_models(prog)
    J = {n: ev(prog, n) for n in ('JUMP_NONE', 'JUMP_JMP', 'JUMP_JNZ', 'JUMP_RET', 'JUMP_HLT')}
    for fname, want in (('funcjmp', 'JUMP_JMP'), ('funcjnz', 'JUMP_JNZ'), ('funcret', 'JUMP_RET'), ('funchlt', 'JUMP_HLT')):
        fn = prog.require_func(fname)
        for pre in ('JUMP_NONE', 'JUMP_RET', 'JUMP_JMP'):
            def runner(it):
                f = mkfuncobj(it, prog)
                blk = it.load(f.obj, ('end',))
                blk.obj.f[('jump', 'kind')] = J[pre]
                tgt = it.call(prog.require_func('mkblock'), [Ptr(it.mkstr(list(b'l'), 'l'), (0,))])
                args = {'funcjmp': [f, tgt], 'funcjnz': [f, cmodel.val('v'), None, tgt, tgt], 'funcret': [f, None], 'funchlt': [f]}[fname]
                it.call(fn, args)
                return blk.obj.f[('jump', 'kind')]
            runs = explore(prog, runner, M, max_runs=4)
            if len(runs) != 1 or runs[0].outcome != 'return':
                raise AnalysisBroken('%s: %s' % (fname, [(x.outcome, x.detail) for x in runs]))
            got = runs[0].value
            exp = J[want] if pre == 'JUMP_NONE' else J[pre]
            r.instance(got == exp, '%s:on-%s' % (fname, pre), 'qbe.c:%s' % fn.get('line'), 'block with %s: expected jump kind %d afterwards, got %s' % (pre, exp, got))
    # funcinst after a terminator
    fi = prog.require_func('funcinst', 'qbe.c')
    def runner2(it):
        f = mkfuncobj(it, prog)
        blk = it.load(f.obj, ('end',))
        blk.obj.f[('jump', 'kind')] = J['JUMP_RET']
        it.call(fi, [f, ev(prog, 'IADD'), ord('w'), cmodel.val('a'), cmodel.val('b')])
        end = it.load(f.obj, ('end',))
        return end != blk, len(it.user.get('arrays', {}).get((blk.obj.id, ('insts',)), []))
    runs = explore(prog, runner2, M, max_runs=4)
    ok = len(runs) == 1 and runs[0].outcome == 'return' and runs[0].value == (True, 0)
    r.instance(ok, 'funcinst:after-terminator', 'qbe.c:%s' % fi.get('line'), 'an instruction emitted after a terminator must go to a fresh block; got %s' % [(x.outcome, x.value) for x in runs])
    r.exhaustive = True


# ------------------------------------------------------------------ lowering graphs

def rule_phi(chk, prog, tier):
    r = chk.rule('C03.g', 'lowering of ?:, && and || (nested, and with an arm that ends in a no-return call): every phi source block has an edge to the phi\'s block; no block gets instructions after its terminator',
                 floor=12, oracle='QBE: phi arguments name predecessors of the block')
    fe = prog.require_func('funcexpr')
    M = be_models(prog)
    J = {n: ev(prog, n) for n in ('JUMP_NONE', 'JUMP_JMP', 'JUMP_JNZ', 'JUMP_RET', 'JUMP_HLT')}
    def build(w, shape):
        it = w.it
        T = w.t('int')
        def leaf(n): return w.temp(T, n)
        def cond(c, a, b): return w.mkexpr('EXPRCOND', T, c, u__cond__t=a, u__cond__f=b)
        def land(a, b): return w.mkexpr('EXPRBINARY', T, None, op=ev(prog, 'TLAND'), u__binary__l=a, u__binary__r=b)
        def lor(a, b): return w.mkexpr('EXPRBINARY', T, None, op=ev(prog, 'TLOR'), u__binary__l=a, u__binary__r=b)
        def die():
            # (die(), 1): call to a _Noreturn function followed by a constant
            ft = it.call('mktype', [ev(prog, 'TYPEFUNC'), 0])
            ft.obj.f[('base',)] = w.t('void'); ft.obj.f[('u', 'func', 'isvararg')] = 0; ft.obj.f[('u', 'func', 'nparam')] = 0; ft.obj.f[('u', 'func', 'params')] = None
            ft.obj.f[('prop',)] = 0; ft.obj.f[('kind',)] = ev(prog, 'TYPEFUNC')
            d = Obj('decl:die', 'heap'); d.f[('kind',)] = ev(prog, 'DECLFUNC'); d.f[('u', 'func', 'isnoreturn')] = 1; d.f[('value',)] = cmodel.val('$die')
            d.f[('name',)] = None
            ident = w.mkexpr('EXPRIDENT', ft, None, u__ident__decl=Ptr(d, ()))
            addr = w.mkexpr('EXPRUNARY', w.mkptr(ft), ident, op=ev(prog, 'TBAND'))
            call = w.mkexpr('EXPRCALL', w.t('void'), addr, u__call__args=None, u__call__nargs=0)
            one = w.mkexpr('EXPRCONST', T, None, u__constant__u=1)
            call.obj.f[('next',)] = one
            return w.mkexpr('EXPRCOMMA', T, call)
        a, b, c, x, y, z = [leaf(n) for n in 'abcxyz']
        return {
            'a?x:y': lambda: cond(a, x, y),
            'a?(b?x:y):z': lambda: cond(a, cond(b, x, y), z),
            'a?x:(b?y:z)': lambda: cond(a, x, cond(b, y, z)),
            '(a?b:c)?x:y': lambda: cond(cond(a, b, c), x, y),
            'a?(b&&c):x': lambda: cond(a, land(b, c), x),
            'a?x:(b||c)': lambda: cond(a, x, lor(b, c)),
            'a&&b': lambda: land(a, b), 'a||b': lambda: lor(a, b),
            'a&&(b||c)': lambda: land(a, lor(b, c)), '(a&&b)||c': lambda: lor(land(a, b), c),
            'a&&(b?x:y)': lambda: land(a, cond(b, x, y)), '(a?x:y)||b': lambda: lor(cond(a, x, y), b),
            'a?(die(),1):x': lambda: cond(a, die(), x),
            'a?x:(die(),1)': lambda: cond(a, x, die()),
            'a&&(die(),1)': lambda: land(a, die()),
            'a||(die(),1)': lambda: lor(a, die()),
        }[shape]()
    shapes = ['a?x:y', 'a?(b?x:y):z', 'a?x:(b?y:z)', '(a?b:c)?x:y', 'a?(b&&c):x', 'a?x:(b||c)', 'a&&b', 'a||b', 'a&&(b||c)', '(a&&b)||c',
              'a&&(b?x:y)', '(a?x:y)||b', 'a?(die(),1):x', 'a?x:(die(),1)', 'a&&(die(),1)', 'a||(die(),1)']
    for shape in shapes:
        def runner(it, shape=shape):
            w = World(prog, it=it, target='x86_64-sysv')
            f = mkfuncobj(it, prog)
            e = build(w, shape)
            it.call(fe, [f, e])
            bl = blocks(it, f)
            info = []
            for b in bl:
                o = b.obj
                info.append({'b': b, 'name': bytes(read_cstr(it, o.f[('label', 'u', 'name')])).decode() + '.%s' % o.f[('label', 'id')],
                             'jk': o.f.get(('jump', 'kind')), 'j0': o.f.get(('jump', 'blk', 0)), 'j1': o.f.get(('jump', 'blk', 1)),
                             'phi': o.f.get(('phi', 'res', 'kind')), 'p0': o.f.get(('phi', 'blk', 0)), 'p1': o.f.get(('phi', 'blk', 1)),
                             'ninst': len(it.user.get('arrays', {}).get((o.id, ('insts',)), []))})
            return info
        runs = explore(prog, runner, M, max_runs=8)
        if len(runs) != 1 or runs[0].outcome != 'return':
            raise AnalysisBroken('funcexpr(%s): %s' % (shape, [(x.outcome, x.detail) for x in runs]))
        info = runs[0].value
        idx = {d['b'].obj.id: i for i, d in enumerate(info)}
        def succs(i):
            d = info[i]
            if d['jk'] == J['JUMP_JMP']: return [idx.get(d['j0'].obj.id)]
            if d['jk'] == J['JUMP_JNZ']: return [idx.get(d['j0'].obj.id), idx.get(d['j1'].obj.id)]
            if d['jk'] in (J['JUMP_RET'], J['JUMP_HLT']): return []
            return [i + 1] if i + 1 < len(info) else []
        bad = []
        for i, d in enumerate(info):
            if d['phi'] and d['phi'] != ev(prog, 'VALUE_NONE'):
                for src in (d['p0'], d['p1']):
                    si = idx.get(src.obj.id) if isinstance(src, Ptr) else None
                    if si is None or i not in succs(si):
                        bad.append('phi in @%s names @%s, which %s' % (d['name'], info[si]['name'] if si is not None else src,
                                   'ends in hlt/ret' if si is not None and not succs(si) else 'does not branch there'))
            for t in succs(i):
                if t is None:
                    bad.append('@%s jumps to a block that was never placed' % d['name'])
        r.instance(not bad, 'lowering:%s' % shape if not (bad and 'die()' in shape and shape.startswith('a?')) else 'lowering-class: arm of ?: ends in a no-return call, phi names the terminated block', 'qbe.c:%s' % fe.get('line'), '; '.join(bad), sample='%s: %d blocks' % (shape, len(info)))
    r.exhaustive = False


# ------------------------------------------------------------------ dataitem

def rule_dataitem(chk, prog, tier):
    r = chk.rule('C03.h', 'a string initialiser in a data definition emits min(length, size/width) code units read from inside the literal and a zero fill that brings the item to exactly the object size',
                 floor=60)
    fn = prog.require_func('dataitem', 'qbe.c')
    def out(it, args, e):
        name = facts.unwrap(e['inner'][0])['referencedDecl']['name']
        it.event('out', name, tuple(args))
        return 0
    M = {'printf': out, 'fputc': out, 'putchar': out, 'fputs': out, 'isprint': lambda it, a, e: 1,
         'error': lambda it, a, e: (_ for _ in ()).throw(Terminal('error', a)), 'fatal': lambda it, a, e: (_ for _ in ()).throw(Terminal('fatal', a))}
    for wname, w in (('char', 1), ('ushort', 2), ('uint', 4)):
        for n in (1, 2, 3, 5):
            for units in (1, 2, 3, 4, 5, 6, 8):
                S = units * w
                def runner(it):
                    W = World(prog, it=it, target='x86_64-sysv')
                    arr = it.call('mkarraytype', [W.t(wname), 0, n])
                    data = Obj('strdata', 'heap'); data.bytebuf = True
                    for i in range(n):
                        data.f[(i * w,)] = 65 + i if i < n - 1 else 0
                    e = W.mkexpr('EXPRSTRING', arr, None, u__string__size=n, u__string__data=Ptr(data, (0,)))
                    it.call(fn, [e, S])
                    return it.events
                runs = explore(prog, runner, M, max_runs=4, on_unsupported='keep')
                run = runs[0]
                key = 'dataitem:%s,len=%d,size=%d' % (wname, n, S)
                where = 'qbe.c:%s' % fn.get('line')
                if run.outcome != 'return':
                    r.violation(key, where, 'reads outside the literal or fails: %s %s' % (run.outcome, run.detail)); continue
                nunits = 0; z = 0
                uninit = False
                for ev_ in run.value:
                    if ev_[0] == 'out' and ev_[1] == 'putchar' and w == 1:
                        nunits += 1
                    if ev_[0] == 'out' and ev_[1] == 'printf':
                        f0 = a0 = None
                        try:
                            f0 = bytes(read_cstr(run.interp, ev_[2][0])).decode()
                        except Exception:
                            pass
                        if f0 and f0.startswith(', z'):
                            z = ev_[2][1]
                        elif f0 and w == 1 and '%03o' in f0:
                            nunits += 1
                        elif f0 and w > 1 and 'u ' in f0:
                            nunits += 1
                            if ev_[2][1] is UNINIT: uninit = True
                want_units = min(n, S // w)
                want_z = S - want_units * w
                ok = nunits == want_units and z == want_z and not uninit
                r.instance(ok, key, where, 'emitted %d units and "z %s"; the object needs %d units and z %d (uninitialised read: %s)' % (nunits, z, want_units, want_z, uninit))
    r.exhaustive = False


# ------------------------------------------------------------------ write-only fields

def rule_fields(chk, prog, tier):
    r = chk.rule('C03.c', 'every bookkeeping field that is written is also read somewhere (a flag that is only ever set enforces nothing): label definedness must be checked', floor=100)
    writes = {}; reads = {}
    names = {}
    for fid, (rec, fld) in prog.fields.items():
        rn = rec.get('name') or 'anon@%s:%s' % (rec.get('dline'), rec.get('dcol'))
        names[fid] = '%s.%s' % (rn, fld.get('name'))
    for fn in prog.all_funcs():
        lhs = set()
        for n in walk(fn):
            if n.get('kind') == 'BinaryOperator' and n.get('opcode') == '=':
                l = unwrap(n['inner'][0])
                if l.get('kind') == 'MemberExpr':
                    lhs.add(id(l))
        for n in walk(fn):
            if n.get('kind') == 'MemberExpr' and n.get('referencedMemberDecl'):
                fid = names.get(n['referencedMemberDecl'], n['referencedMemberDecl'])
                if id(n) in lhs: writes.setdefault(fid, []).append((fn, n))
                else: reads.setdefault(fid, []).append((fn, n))
    FIELD_EXCEPTIONS = {
        'attr.align': 'the aligned attribute is rejected at every use site (no caller allows ATTRALIGNED), so the parsed value has no consumer yet',
    }
    n = 0
    for fid, ws in writes.items():
        nm = fid
        if nm in FIELD_EXCEPTIONS:
            continue
        n += 1
        rd = reads.get(fid)
        fn, node = ws[0]
        r.instance(bool(rd), 'field:%s' % nm, '%s:%s' % (fn['_file'], node.get('line')), 'field %s is assigned in %s but never read anywhere in the program' % (nm, sorted({w[0]['name'] for w in ws})))
    r.exhaustive = True


# ------------------------------------------------------------------ streams

def rule_streams(chk, prog, tier):
    r = chk.rule('C03.f', 'diagnostics are written to stderr only and IL to stdout only: no function reachable from error/fatal/warn writes to stdout, no emitter writes to stderr', floor=50)
    nr, graphs = cfgs(prog)
    STDOUT_IMPLICIT = {'printf', 'puts', 'putchar'}
    STREAM_ARG = {'fprintf': 0, 'vfprintf': 0, 'fputs': 1, 'fputc': 1, 'putc': 1, 'fwrite': 3}
    diag_files = {'util.c'}
    diag_funcs = {'error', 'fatal', 'warn', 'vwarn', 'usage'}
    for fid, g in graphs.items():
        fn = g.fn
        for c in [x for x in walk(fn) if x.get('kind') == 'CallExpr']:
            f = callee_name(c)
            stream = None
            if f in STDOUT_IMPLICIT: stream = 'stdout'
            elif f in STREAM_ARG:
                a = unwrap_all(c['inner'][1 + STREAM_ARG[f]])
                stream = a['referencedDecl'].get('name') if a.get('kind') == 'DeclRefExpr' else '?'
            elif f == 'perror': stream = 'stderr'
            if stream is None: continue
            isdiag = fn['name'] in diag_funcs
            if isdiag:
                ok = stream == 'stderr'
                det = 'diagnostic function %s() writes to %s' % (fn['name'], stream)
            else:
                ok = stream == 'stdout'
                det = '%s() writes to %s; only error/fatal/warn/usage may use stderr and they must not use stdout' % (fn['name'], stream)
            r.instance(ok, 'stream:%s:%s' % (fn['name'], f), '%s:%s' % (fn['_file'], c.get('line')), det)
    r.exhaustive = True


# ------------------------------------------------------------------ C03.i undefined labels

def rule_undefined_labels(chk, prog, tier):
    r = chk.rule('C03.i', 'at the end of a function every label that was used but never defined is diagnosed, wherever its entry sits in the label table', floor=60,
                 oracle='C11 6.8.6.1p1; a jmp to a block that is never placed makes the IL invalid')
    import itertools
    fn = prog.require_func('delfunc', 'qbe.c')
    CAP = 4
    for nlab in (1, 2, 3):
        for slots in itertools.combinations(range(CAP), nlab):
            for defined in itertools.product((0, 1), repeat=nlab):
                def runner(it):
                    f = Obj('func', 'heap')
                    keys = Obj('keys', 'heap'); vals = Obj('vals', 'heap')
                    for k in range(CAP):
                        keys.f[(k, 'str')] = None; keys.f[(k, 'len')] = 0; keys.f[(k, 'hash')] = 0; vals.f[(k,)] = None
                    for s_, d_ in zip(slots, defined):
                        g = Obj('gotolabel', 'heap'); g.f[('defined',)] = d_; g.f[('label',)] = None
                        keys.f[(s_, 'str')] = Ptr(it.mkstr(list(b'L%d' % s_), 'name'), (0,)); keys.f[(s_, 'len')] = 2
                        vals.f[(s_,)] = Ptr(g, ())
                    f.f.update({('gotos', 'len'): nlab, ('gotos', 'cap'): CAP, ('gotos', 'keys'): Ptr(keys, (0,)), ('gotos', 'vals'): Ptr(vals, (0,)), ('start',): None})
                    it.models.update({'free': lambda i2, a, e: None, 'mapfree': lambda i2, a, e: None,
                                      'error': lambda i2, a, e: (_ for _ in ()).throw(Terminal('error', cmodel.fmt_of(i2, a, 1)))})
                    it.call(fn, [Ptr(f, ())])
                    return 'clean'
                runs = explore(prog, runner, {}, max_runs=4, on_unsupported='keep')
                if len(runs) != 1 or runs[0].outcome == 'unsupported':
                    raise AnalysisBroken('delfunc: %s' % (runs[0].detail if runs else 'no run'))
                want_err = not all(defined)
                got_err = runs[0].outcome == 'terminal:error'
                r.instance(want_err == got_err, 'labels:slots=%s,defined=%s' % (slots, defined), 'qbe.c:%s' % fn.get('line'),
                           'table of capacity %d with labels in slots %s (defined: %s): %s' % (CAP, slots, defined, 'the undefined label is not diagnosed' if want_err else 'a diagnostic is raised although every label is defined'))
    r.exhaustive = True


def run(chk, tier):
    prog = facts.programs()['cproc-qbe']
    chk.guard('C03.a', lambda: rule_terminators(chk, prog, tier))
    chk.guard('C03.c', lambda: rule_fields(chk, prog, tier))
    chk.guard('C03.g', lambda: rule_phi(chk, prog, tier))
    chk.guard('C03.h', lambda: rule_dataitem(chk, prog, tier))
    chk.guard('C03.f', lambda: rule_streams(chk, prog, tier))
    chk.guard('C03.e', lambda: c19.rule_flush(chk, prog, tier))
    chk.guard('C03.i', lambda: rule_undefined_labels(chk, prog, tier))
