"""C03 - well-formed IL: structural clauses of the emitter.

C03.a  terminator-once: funcjmp/funcjnz/funcret/funchlt only set a jump on a block that has none (E-AI on each, both states)
C03.c  bookkeeping fields that are written but never read (a belief never enforced): e.g. gotolabel.defined
C03.g  block graphs of ?: / && / || lowering (nested, with a no-return call in an arm): every phi source is a real
       predecessor of the phi's block, every block has one terminator or falls through, nothing follows a terminator
C03.h  string data items: units emitted and zero fill add up to exactly the object size for every width/length/size
C03.e  status 0 only after flush + terminal ferror test (shared with C19.g)
C03.f  diagnostics never go to stdout; the emitters never write to stderr
"""
import facts
from facts import AnalysisBroken, children, unwrap, unwrap_all, walk
from eai import Interp, Obj, Ptr, Sym, SV, Terminal, Unsupported, StructVal, explore, read_cstr, UNINIT
import cmodel
from cmodel import World, ev
from cfg import cfgs, callee_name
from props import c19

TECHNIQUE = 'abstract interpretation of the block-building primitives on abstract block objects (graph invariants of every lowering arm), E-AI table of dataitem, AST field-usage and stream-usage rules, CFG dominator rule for the exit discipline'


def be_models(prog):
    M = {}
    M['error'] = lambda it, a, e: (_ for _ in ()).throw(Terminal('error', a))
    M['fatal'] = lambda it, a, e: (_ for _ in ()).throw(Terminal('fatal', a))
    M['xmalloc'] = lambda it, a, e: Ptr(Obj('heap@%s' % e.get('line'), 'heap'), ())
    M['xreallocarray'] = lambda it, a, e: Ptr(Obj('arr', 'heap'), (0,))
    def arrayaddptr(it, args, e):
        a, v = args
        lst = it.user.setdefault('arrays', {}).setdefault((a.obj.id, a.path), [])
        lst.append(v)
        return None
    M['arrayaddptr'] = arrayaddptr
    M['emittype'] = lambda it, a, e: None
    M['calcvla'] = lambda it, a, e: None
    return M


def mkfuncobj(it, prog):
    """a struct func with a start block, as mkfunc leaves it"""
    mkblock = prog.require_func('mkblock')
    f = Obj('func', 'heap')
    name = Ptr(it.mkstr(list(b'start'), 'start'), (0,))
    b = it.call(mkblock, [name])
    f.f[('start',)] = b; f.f[('end',)] = b; f.f[('lastid',)] = 0
    return Ptr(f, ())


def blocks(it, f):
    out = []
    b = it.load(f.obj, ('start',))
    seen = set()
    while b is not None:
        if b.obj.id in seen:
            raise Unsupported('block list is cyclic')
        seen.add(b.obj.id)
        out.append(b)
        b = b.obj.f.get(('next',))
    return out


def rule_terminators(chk, prog, tier):
    r = chk.rule('C03.a', 'a block receives at most one terminator: funcjmp/funcjnz/funcret/funchlt leave an already terminated block untouched; funcinst opens a fresh block after a terminator',
                 floor=9)
    M = be_models(prog)
    J = {n: ev(prog, n) for n in ('JUMP_NONE', 'JUMP_JMP', 'JUMP_JNZ', 'JUMP_RET', 'JUMP_HLT')}
    for fname, want in (('funcjmp', 'JUMP_JMP'), ('funcjnz', 'JUMP_JNZ'), ('funcret', 'JUMP_RET'), ('funchlt', 'JUMP_HLT')):
        fn = prog.require_func(fname)
        for pre in ('JUMP_NONE', 'JUMP_RET', 'JUMP_JMP'):
            def runner(it):
                f = mkfuncobj(it, prog)
                blk = it.load(f.obj, ('end',))
                blk.obj.f[('jump', 'kind')] = J[pre]
                tgt = it.call(prog.require_func('mkblock'), [Ptr(it.mkstr(list(b'l'), 'l'), (0,))])
                args = {'funcjmp': [f, tgt], 'funcjnz': [f, cmodel.val('v'), None, tgt, tgt], 'funcret': [f, None], 'funchlt': [f]}[fname]
                it.call(fn, args)
                return blk.obj.f[('jump', 'kind')]
            runs = explore(prog, runner, M, max_runs=4)
            if len(runs) != 1 or runs[0].outcome != 'return':
                raise AnalysisBroken('%s: %s' % (fname, [(x.outcome, x.detail) for x in runs]))
            got = runs[0].value
            exp = J[want] if pre == 'JUMP_NONE' else J[pre]
            r.instance(got == exp, '%s:on-%s' % (fname, pre), 'qbe.c:%s' % fn.get('line'), 'block with %s: expected jump kind %d afterwards, got %s' % (pre, exp, got))
    # funcinst after a terminator
    fi = prog.require_func('funcinst', 'qbe.c')
    def runner2(it):
        f = mkfuncobj(it, prog)
        blk = it.load(f.obj, ('end',))
        blk.obj.f[('jump', 'kind')] = J['JUMP_RET']
        it.call(fi, [f, ev(prog, 'IADD'), ord('w'), cmodel.val('a'), cmodel.val('b')])
        end = it.load(f.obj, ('end',))
        return end != blk, len(it.user.get('arrays', {}).get((blk.obj.id, ('insts',)), []))
    runs = explore(prog, runner2, M, max_runs=4)
    ok = len(runs) == 1 and runs[0].outcome == 'return' and runs[0].value == (True, 0)
    r.instance(ok, 'funcinst:after-terminator', 'qbe.c:%s' % fi.get('line'), 'an instruction emitted after a terminator must go to a fresh block; got %s' % [(x.outcome, x.value) for x in runs])
    r.exhaustive = True


# ------------------------------------------------------------------ lowering graphs

def rule_phi(chk, prog, tier):
    r = chk.rule('C03.g', 'lowering of ?:, && and || (nested, and with an arm that ends in a no-return call): every phi source block has an edge to the phi\'s block; no block gets instructions after its terminator',
                 floor=12, oracle='QBE: phi arguments name predecessors of the block')
    fe = prog.require_func('funcexpr')
    M = be_models(prog)
    J = {n: ev(prog, n) for n in ('JUMP_NONE', 'JUMP_JMP', 'JUMP_JNZ', 'JUMP_RET', 'JUMP_HLT')}
    def build(w, shape):
        it = w.it
        T = w.t('int')
        def leaf(n): return w.temp(T, n)
        def cond(c, a, b): return w.mkexpr('EXPRCOND', T, c, u__cond__t=a, u__cond__f=b)
        def land(a, b): return w.mkexpr('EXPRBINARY', T, None, op=ev(prog, 'TLAND'), u__binary__l=a, u__binary__r=b)
        def lor(a, b): return w.mkexpr('EXPRBINARY', T, None, op=ev(prog, 'TLOR'), u__binary__l=a, u__binary__r=b)
        def die(T=T):
            # (die(), 1): call to a _Noreturn function followed by a constant
            ft = it.call('mktype', [ev(prog, 'TYPEFUNC'), 0])
            ft.obj.f[('base',)] = w.t('void'); ft.obj.f[('u', 'func', 'isvararg')] = 0; ft.obj.f[('u', 'func', 'nparam')] = 0; ft.obj.f[('u', 'func', 'params')] = None
            ft.obj.f[('prop',)] = 0; ft.obj.f[('kind',)] = ev(prog, 'TYPEFUNC')
            d = Obj('decl:die', 'heap'); d.f[('kind',)] = ev(prog, 'DECLFUNC'); d.f[('u', 'func', 'isnoreturn')] = 1; d.f[('value',)] = cmodel.val('$die')
            d.f[('name',)] = None
            ident = w.mkexpr('EXPRIDENT', ft, None, u__ident__decl=Ptr(d, ()))
            addr = w.mkexpr('EXPRUNARY', w.mkptr(ft), ident, op=ev(prog, 'TBAND'))
            call = w.mkexpr('EXPRCALL', w.t('void'), addr, u__call__args=None, u__call__nargs=0)
            one = w.mkexpr('EXPRCONST', T, None, u__constant__u=1)
            call.obj.f[('next',)] = one
            return w.mkexpr('EXPRCOMMA', T, call)
        a, b, c, x, y, z = [leaf(n) for n in 'abcxyz']
        return {
            'a?x:y': lambda: cond(a, x, y),
            'a?(b?x:y):z': lambda: cond(a, cond(b, x, y), z),
            'a?x:(b?y:z)': lambda: cond(a, x, cond(b, y, z)),
            '(a?b:c)?x:y': lambda: cond(cond(a, b, c), x, y),
            'a?(b&&c):x': lambda: cond(a, land(b, c), x),
            'a?x:(b||c)': lambda: cond(a, x, lor(b, c)),
            'a&&b': lambda: land(a, b), 'a||b': lambda: lor(a, b),
            'a&&(b||c)': lambda: land(a, lor(b, c)), '(a&&b)||c': lambda: lor(land(a, b), c),
            'a&&(b?x:y)': lambda: land(a, cond(b, x, y)), '(a?x:y)||b': lambda: lor(cond(a, x, y), b),
            'a?(die(),1):x': lambda: cond(a, die(), x),
            'a?x:(die(),1)': lambda: cond(a, x, die()),
            'a&&(die(),1)': lambda: land(a, die()),
            'a||(die(),1)': lambda: lor(a, die()),
            # the no-return call in the LEFT operand / the condition, and a right operand that needs no conversion (no instruction opens a new block by itself)
            '(die(),1)||x': lambda: lor(die(), x), '(die(),1)&&x': lambda: land(die(), x), '(die(),1)?x:y': lambda: cond(die(), x, y),
            'a||(die(),(_Bool)1)': lambda: lor(a, die(w.t('bool'))), 'a&&(die(),(_Bool)1)': lambda: land(a, die(w.t('bool'))),
            '((die(),1)||a)&&b': lambda: land(lor(die(), a), b), 'a?((die(),1)&&x):y': lambda: cond(a, land(die(), x), y),
        }[shape]()
    shapes = ['a?x:y', 'a?(b?x:y):z', 'a?x:(b?y:z)', '(a?b:c)?x:y', 'a?(b&&c):x', 'a?x:(b||c)', 'a&&b', 'a||b', 'a&&(b||c)', '(a&&b)||c',
              'a&&(b?x:y)', '(a?x:y)||b', 'a?(die(),1):x', 'a?x:(die(),1)', 'a&&(die(),1)', 'a||(die(),1)',
              '(die(),1)||x', '(die(),1)&&x', '(die(),1)?x:y', 'a||(die(),(_Bool)1)', 'a&&(die(),(_Bool)1)', '((die(),1)||a)&&b', 'a?((die(),1)&&x):y']
    for shape in shapes:
        def runner(it, shape=shape):
            w = World(prog, it=it, target='x86_64-sysv')
            f = mkfuncobj(it, prog)
            e = build(w, shape)
            it.call(fe, [f, e])
            bl = blocks(it, f)
            info = []
            for b in bl:
                o = b.obj
                info.append({'b': b, 'name': bytes(read_cstr(it, o.f[('label', 'u', 'name')])).decode() + '.%s' % o.f[('label', 'id')],
                             'jk': o.f.get(('jump', 'kind')), 'j0': o.f.get(('jump', 'blk', 0)), 'j1': o.f.get(('jump', 'blk', 1)),
                             'phi': o.f.get(('phi', 'res', 'kind')), 'p0': o.f.get(('phi', 'blk', 0)), 'p1': o.f.get(('phi', 'blk', 1)),
                             'ninst': len(it.user.get('arrays', {}).get((o.id, ('insts',)), []))})
            return info
        runs = explore(prog, runner, M, max_runs=8)
        if len(runs) != 1 or runs[0].outcome != 'return':
            raise AnalysisBroken('funcexpr(%s): %s' % (shape, [(x.outcome, x.detail) for x in runs]))
        info = runs[0].value
        idx = {d['b'].obj.id: i for i, d in enumerate(info)}
        def succs(i):
            d = info[i]
            if d['jk'] == J['JUMP_JMP']: return [idx.get(d['j0'].obj.id)]
            if d['jk'] == J['JUMP_JNZ']: return [idx.get(d['j0'].obj.id), idx.get(d['j1'].obj.id)]
            if d['jk'] in (J['JUMP_RET'], J['JUMP_HLT']): return []
            return [i + 1] if i + 1 < len(info) else []
        bad = []
        for i, d in enumerate(info):
            if d['phi'] and d['phi'] != ev(prog, 'VALUE_NONE'):
                for src in (d['p0'], d['p1']):
                    si = idx.get(src.obj.id) if isinstance(src, Ptr) else None
                    if si is None or i not in succs(si):
                        bad.append('phi in @%s names @%s, which %s' % (d['name'], info[si]['name'] if si is not None else src,
                                   'ends in hlt/ret' if si is not None and not succs(si) else 'does not branch there'))
            for t in succs(i):
                if t is None:
                    bad.append('@%s jumps to a block that was never placed' % d['name'])
        r.instance(not bad, 'lowering:%s' % shape if not (bad and 'die()' in shape and shape.startswith('a?')) else 'lowering-class: arm of ?: ends in a no-return call, phi names the terminated block', 'qbe.c:%s' % fe.get('line'), '; '.join(bad), sample='%s: %d blocks' % (shape, len(info)))
    r.exhaustive = False


# ------------------------------------------------------------------ dataitem

def rule_dataitem(chk, prog, tier):
    r = chk.rule('C03.h', 'a string initialiser in a data definition emits min(length, size/width) code units read from inside the literal and a zero fill that brings the item to exactly the object size',
                 floor=60)
    fn = prog.require_func('dataitem', 'qbe.c')
    def out(it, args, e):
        name = facts.unwrap(e['inner'][0])['referencedDecl']['name']
        it.event('out', name, tuple(args))
        return 0
    M = {'printf': out, 'fputc': out, 'putchar': out, 'fputs': out, 'isprint': lambda it, a, e: 1,
         'error': lambda it, a, e: (_ for _ in ()).throw(Terminal('error', a)), 'fatal': lambda it, a, e: (_ for _ in ()).throw(Terminal('fatal', a))}
    for wname, w in (('char', 1), ('ushort', 2), ('uint', 4)):
        for n in (1, 2, 3, 5):
            for units in (1, 2, 3, 4, 5, 6, 8):
                S = units * w
                def runner(it):
                    W = World(prog, it=it, target='x86_64-sysv')
                    arr = it.call('mkarraytype', [W.t(wname), 0, n])
                    data = Obj('strdata', 'heap'); data.bytebuf = True
                    for i in range(n):
                        data.f[(i * w,)] = 65 + i if i < n - 1 else 0
                    e = W.mkexpr('EXPRSTRING', arr, None, u__string__size=n, u__string__data=Ptr(data, (0,)))
                    it.call(fn, [e, S])
                    return it.events
                runs = explore(prog, runner, M, max_runs=4, on_unsupported='keep')
                run = runs[0]
                key = 'dataitem:%s,len=%d,size=%d' % (wname, n, S)
                where = 'qbe.c:%s' % fn.get('line')
                if run.outcome != 'return':
                    r.violation(key, where, 'reads outside the literal or fails: %s %s' % (run.outcome, run.detail)); continue
                nunits = 0; z = 0
                uninit = False
                for ev_ in run.value:
                    if ev_[0] == 'out' and ev_[1] == 'putchar' and w == 1:
                        nunits += 1
                    if ev_[0] == 'out' and ev_[1] == 'printf':
                        f0 = a0 = None
                        try:
                            f0 = bytes(read_cstr(run.interp, ev_[2][0])).decode()
                        except Exception:
                            pass
                        if f0 and f0.startswith(', z'):
                            z = ev_[2][1]
                        elif f0 and w == 1 and '%03o' in f0:
                            nunits += 1
                        elif f0 and w > 1 and 'u ' in f0:
                            nunits += 1
                            if ev_[2][1] is UNINIT: uninit = True
                want_units = min(n, S // w)
                want_z = S - want_units * w
                ok = nunits == want_units and z == want_z and not uninit
                r.instance(ok, key, where, 'emitted %d units and "z %s"; the object needs %d units and z %d (uninitialised read: %s)' % (nunits, z, want_units, want_z, uninit))
    r.exhaustive = False


# ------------------------------------------------------------------ write-only fields

def rule_fields(chk, prog, tier):
    r = chk.rule('C03.c', 'every bookkeeping field that is written is also read somewhere (a flag that is only ever set enforces nothing): label definedness must be checked', floor=100)
    writes = {}; reads = {}
    names = {}
    for fid, (rec, fld) in prog.fields.items():
        rn = rec.get('name') or 'anon@%s:%s' % (rec.get('dline'), rec.get('dcol'))
        names[fid] = '%s.%s' % (rn, fld.get('name'))
    for fn in prog.all_funcs():
        lhs = set()
        for n in walk(fn):
            if n.get('kind') == 'BinaryOperator' and n.get('opcode') == '=':
                l = unwrap(n['inner'][0])
                if l.get('kind') == 'MemberExpr':
                    lhs.add(id(l))
        for n in walk(fn):
            if n.get('kind') == 'MemberExpr' and n.get('referencedMemberDecl'):
                fid = names.get(n['referencedMemberDecl'], n['referencedMemberDecl'])
                if id(n) in lhs: writes.setdefault(fid, []).append((fn, n))
                else: reads.setdefault(fid, []).append((fn, n))
    FIELD_EXCEPTIONS = {
        'attr.align': 'the aligned attribute is rejected at every use site (no caller allows ATTRALIGNED), so the parsed value has no consumer yet',
    }
    import json, os
    try: known = set(json.load(open(os.path.join(os.path.dirname(os.path.dirname(os.path.abspath(__file__))), 'baseline', 'fields.json')))['members'])
    except (OSError, ValueError, KeyError): raise AnalysisBroken('baseline/fields.json (member inventory of the reviewed tree) is missing')
    n = 0; newer = []
    for fid, ws in writes.items():
        nm = fid
        if nm in FIELD_EXCEPTIONS:
            continue
        if isinstance(nm, str) and not nm.startswith('anon@') and nm not in known:
            newer.append(nm); continue            # a member that did not exist on the reviewed tree: nothing relied on it being read
        n += 1
        rd = reads.get(fid)
        fn, node = ws[0]
        r.instance(bool(rd), 'field:%s' % nm, '%s:%s' % (fn['_file'], node.get('line')), 'field %s is assigned in %s but never read anywhere in the program' % (nm, sorted({w[0]['name'] for w in ws})))
    if newer: r.samples.append('members added since the reviewed tree (not judged): %s' % ', '.join(sorted(newer)))
    r.exhaustive = True


# ------------------------------------------------------------------ streams

def rule_streams(chk, prog, tier):
    r = chk.rule('C03.f', 'diagnostics are written to stderr only and IL to stdout only: no function reachable from error/fatal/warn writes to stdout, no emitter writes to stderr', floor=50)
    nr, graphs = cfgs(prog)
    STDOUT_IMPLICIT = {'printf', 'puts', 'putchar'}
    STREAM_ARG = {'fprintf': 0, 'vfprintf': 0, 'fputs': 1, 'fputc': 1, 'putc': 1, 'fwrite': 3}
    diag_files = {'util.c'}
    diag_funcs = {'error', 'fatal', 'warn', 'vwarn', 'usage'}
    for fid, g in graphs.items():
        fn = g.fn
        for c in [x for x in walk(fn) if x.get('kind') == 'CallExpr']:
            f = callee_name(c)
            stream = None
            if f in STDOUT_IMPLICIT: stream = 'stdout'
            elif f in STREAM_ARG:
                a = unwrap_all(c['inner'][1 + STREAM_ARG[f]])
                stream = a['referencedDecl'].get('name') if a.get('kind') == 'DeclRefExpr' else '?'
            elif f == 'perror': stream = 'stderr'
            if stream is None: continue
            isdiag = fn['name'] in diag_funcs
            if isdiag:
                ok = stream == 'stderr'
                det = 'diagnostic function %s() writes to %s' % (fn['name'], stream)
            else:
                ok = stream == 'stdout'
                det = '%s() writes to %s; only error/fatal/warn/usage may use stderr and they must not use stdout' % (fn['name'], stream)
            r.instance(ok, 'stream:%s:%s' % (fn['name'], f), '%s:%s' % (fn['_file'], c.get('line')), det)
    r.exhaustive = True


# ------------------------------------------------------------------ C03.i undefined labels

def rule_undefined_labels(chk, prog, tier):
    r = chk.rule('C03.i', 'at the end of a function every label that was used but never defined is diagnosed, wherever its entry sits in the label table', floor=60,
                 oracle='C11 6.8.6.1p1; a jmp to a block that is never placed makes the IL invalid')
    import itertools
    fn = prog.require_func('delfunc', 'qbe.c')
    CAP = 4
    for nlab in (1, 2, 3):
        for slots in itertools.combinations(range(CAP), nlab):
            for defined in itertools.product((0, 1), repeat=nlab):
                def runner(it):
                    f = Obj('func', 'heap')
                    keys = Obj('keys', 'heap'); vals = Obj('vals', 'heap')
                    for k in range(CAP):
                        keys.f[(k, 'str')] = None; keys.f[(k, 'len')] = 0; keys.f[(k, 'hash')] = 0; vals.f[(k,)] = None
                    for s_, d_ in zip(slots, defined):
                        g = Obj('gotolabel', 'heap'); g.f[('defined',)] = d_; g.f[('label',)] = None
                        keys.f[(s_, 'str')] = Ptr(it.mkstr(list(b'L%d' % s_), 'name'), (0,)); keys.f[(s_, 'len')] = 2
                        vals.f[(s_,)] = Ptr(g, ())
                    f.f.update({('gotos', 'len'): nlab, ('gotos', 'cap'): CAP, ('gotos', 'keys'): Ptr(keys, (0,)), ('gotos', 'vals'): Ptr(vals, (0,)), ('start',): None})
                    it.models.update({'free': lambda i2, a, e: None, 'mapfree': lambda i2, a, e: None,
                                      'error': lambda i2, a, e: (_ for _ in ()).throw(Terminal('error', cmodel.fmt_of(i2, a, 1)))})
                    it.call(fn, [Ptr(f, ())])
                    return 'clean'
                runs = explore(prog, runner, {}, max_runs=4, on_unsupported='keep')
                if len(runs) != 1 or runs[0].outcome == 'unsupported':
                    raise AnalysisBroken('delfunc: %s' % (runs[0].detail if runs else 'no run'))
                want_err = not all(defined)
                got_err = runs[0].outcome == 'terminal:error'
                r.instance(want_err == got_err, 'labels:slots=%s,defined=%s' % (slots, defined), 'qbe.c:%s' % fn.get('line'),
                           'table of capacity %d with labels in slots %s (defined: %s): %s' % (CAP, slots, defined, 'the undefined label is not diagnosed' if want_err else 'a diagnostic is raised although every label is defined'))
    r.exhaustive = True


# ------------------------------------------------------------------ C03.k the block chain while f->end is redirected

def rule_block_chain(chk, prog, tier):
    r = chk.rule('C03.k', 'blocks are only ever appended at f->end (funclabel); code that points f->end somewhere else for a while (funcalloc places allocations in the start block) saves it AFTER everything that can append blocks has run '
                 'and appends none until it is restored - otherwise the blocks created in between drop out of the chain and the function is printed with jumps to labels that do not exist', floor=1)
    import cfg
    from facts import walk as _walk, unwrap_all as _ua, children as _ch
    nr, graphs = cfg.cfgs(prog)
    callees = {}
    for fn in prog.all_funcs():
        callees[fn['name']] = {cfg.callee_name(c) for c in _walk(fn) if c.get('kind') == 'CallExpr'} - {None}
    app = {'funclabel'}
    changed = True
    while changed:
        changed = False
        for f_, cs in callees.items():
            if f_ in ('error', 'fatal'): continue
            if f_ not in app and cs & app: app.add(f_); changed = True
    if 'funcexpr' not in app or 'calcvla' not in app:
        raise AnalysisBroken('closure of funclabel lost funcexpr / calcvla')
    def is_end(m):
        m = _ua(m)
        return m.get('kind') == 'MemberExpr' and m.get('name') == 'end' and 'struct func' in _ch(m)[0].get('type', {}).get('qualType', '')
    n = 0
    for fn in prog.all_funcs():
        if fn['_file'] != 'qbe.c' or fn['name'] in ('funclabel', 'mkfunc'): continue
        g = graphs[fn['id']]
        stores = []; saves = {}
        for node in g.nodes:
            if node.ast is None: continue
            for b in _walk(node.ast):
                if b.get('kind') == 'BinaryOperator' and b.get('opcode') == '=':
                    lhs, rhs = _ch(b)
                    if is_end(lhs): stores.append((node, _ua(rhs)))
                    elif is_end(rhs) and _ua(lhs).get('kind') == 'DeclRefExpr': saves[_ua(lhs)['referencedDecl']['id']] = node
        if not stores: continue
        restores = [(node, rhs) for node, rhs in stores if rhs.get('kind') == 'DeclRefExpr' and rhs['referencedDecl']['id'] in saves]
        if not restores:
            r.violation('block-chain:%s' % fn['name'], '%s:%s' % (fn['_file'], stores[0][0].line), '%s() assigns f->end and never restores a saved value' % fn['name']); continue
        for rnode, rhs in restores:
            snode = saves[rhs['referencedDecl']['id']]
            # nodes strictly between the save and the restore
            fwd = set(); work = [m for m, _ in snode.succ]
            while work:
                x = work.pop()
                if x.id in fwd or x.id == rnode.id: continue
                fwd.add(x.id); work.extend(m for m, _ in x.succ)
            bwd = set(); work = [m for m, _ in rnode.pred]
            while work:
                x = work.pop()
                if x.id in bwd or x.id == snode.id: continue
                bwd.add(x.id); work.extend(m for m, _ in x.pred)
            bad = []
            for i in sorted(fwd & bwd):
                x = g.nodes[i]
                if x.ast is None: continue
                # funcinst appends (a `dead` block) only when the block it writes to is already terminated: that case is decided on the scenarios of C03.l
                bad += ['%s() at line %s' % (cfg.callee_name(c), c.get('line') or x.line) for c in _walk(x.ast) if c.get('kind') == 'CallExpr' and cfg.callee_name(c) in app and cfg.callee_name(c) != 'funcinst']
            n += 1
            r.instance(not bad, 'block-chain:%s saves f->end at line %s, restores it at line %s' % (fn['name'], snode.line, rnode.line), '%s:%s' % (fn['_file'], snode.line),
                       'between the save and the restore %s can append blocks: they are unlinked when f->end is put back' % ', '.join(bad))
    if n == 0:
        raise AnalysisBroken('no save/restore of f->end found (funcalloc expected)')
    r.samples.append('%d functions can append a block' % len(app))
    r.exhaustive = True


# ------------------------------------------------------------------ C03.l funcalloc keeps the chain whole

def rule_alloc_chain(chk, prog, tier):
    r = chk.rule('C03.l', 'after funcalloc every block that was created is still in the chain start -> ... -> f->end, f->end is its last element, and the one alloc instruction that defines the object\'s address is in one of them - '
                 'for constant-size objects, variable-length arrays whose size is already known or still to be computed (with control flow in the length expression), whether or not the current block is already terminated', floor=20)
    fn = prog.require_func('funcalloc', 'qbe.c')
    names = cmodel.instnames(prog)
    for kind in ('constant', 'vla-size-known', 'vla-size-computed', 'vla-length-with-branches'):
        for terminated in (False, True):
            for align in (4, 16, 32):
                def runner(it):
                    w = World(prog, it=it, target='x86_64-sysv')
                    created = []; insts = {}
                    def xmalloc(i2, a, e):
                        o = Obj('heap@%s' % e.get('line'), 'heap'); created.append(o); return Ptr(o, ())
                    def arrayaddptr(i2, a, e):
                        insts.setdefault(a[0].obj.id, []).append(a[1]); return None
                    it.models.update({'xmalloc': xmalloc, 'arrayaddptr': arrayaddptr, 'mkintconst': lambda i2, a, e: ('const', a[0]),
                                      'error': lambda i2, a, e: (_ for _ in ()).throw(Terminal('error', cmodel.fmt_of(i2, a, 1))),
                                      'fatal': lambda i2, a, e: (_ for _ in ()).throw(Terminal('fatal', cmodel.fmt_of(i2, a, 0)))})
                    f = Obj('func', 'heap'); f.f[('lastid',)] = 0
                    start = it.call('mkblock', [None]); body = it.call('mkblock', [None])
                    f.f[('start',)] = start; f.f[('end',)] = start
                    it.call('funclabel', [Ptr(f, ()), body])
                    if terminated: body.obj.f[('jump', 'kind')] = ev(prog, 'JUMP_JMP')
                    PV = ev(prog, 'PROPVM')
                    if kind == 'constant':
                        t = w.mkstruct(size=24, align=8)
                    else:
                        t = it.call('mkarraytype', [w.t('int'), 0, 0]); t.obj.f[('incomplete',)] = 0; t.obj.f[('size',)] = 0; t.obj.f[('prop',)] = PV
                        if kind == 'vla-size-known': t.obj.f[('u', 'array', 'size')] = cmodel.val('size')
                        else: t.obj.f[('u', 'array', 'length')] = w.temp(w.t('int'), 'n')
                    def funcexpr(i2, a, e):
                        # evaluating the length: plain code, or code with a branch that appends blocks (n > 0 ? n : 1)
                        if kind == 'vla-length-with-branches':
                            for _ in range(2): i2.call('funclabel', [a[0], i2.call('mkblock', [None])])
                        return i2.call('funcinst', [a[0], ev(prog, 'ICOPY'), ord('w'), cmodel.val('n'), None])
                    it.models['funcexpr'] = funcexpr
                    it.models['convert'] = lambda i2, a, e: a[3]
                    d = Obj('decl', 'heap'); d.f.update({('type',): t, ('u', 'obj', 'align'): align, ('value',): None, ('kind',): ev(prog, 'DECLOBJECT')})
                    it.call(fn, [Ptr(f, ()), Ptr(d, ())])
                    chain = []; b = f.f[('start',)]
                    while b is not None and len(chain) < 50: chain.append(b.obj); b = b.obj.f.get(('next',))
                    blocks = [o for o in created if ('label', 'kind') in o.f]
                    lost = [o for o in blocks if o not in chain]
                    allocs_in_chain = [i for o in chain for i in insts.get(o.id, []) if names.get(i.obj.f.get(('kind',)), '').startswith('IALLOC')]
                    allocs_all = [i for lst in insts.values() for i in lst if names.get(i.obj.f.get(('kind',)), '').startswith('IALLOC')]
                    return len(lost), f.f[('end',)].obj is chain[-1], len(allocs_in_chain), len(allocs_all), d.f[('value',)] is not None
                runs = explore(prog, runner, {}, max_runs=4, on_unsupported='keep')
                key = 'alloc-chain:%s,%s,align %d' % (kind, 'current block terminated' if terminated else 'current block open', align)
                if len(runs) != 1 or runs[0].outcome != 'return':
                    raise AnalysisBroken('%s: %s' % (key, [(x.outcome, x.detail) for x in runs][:2]))
                lost, endlast, ain, aall, hasval = runs[0].value
                r.instance(lost == 0 and endlast and ain == 1 and aall == 1 and hasval, key, 'qbe.c:%s' % fn.get('line'),
                           '%d block(s) created during the call are no longer reachable from the start block; f->end is %sthe last block of the chain; %d of %d alloc instruction(s) are in the chain' % (lost, '' if endlast else 'NOT ', ain, aall))
    r.exhaustive = False


# ------------------------------------------------------------------ C03.m the mnemonic table

def rule_mnemonics(chk, prog, tier):
    r = chk.rule('C03.m', 'every instruction kind is printed with the QBE mnemonic its enumerator names (ops.h: IEXTUH is printed `extuh`, ICSLTW `csltw`, ...): the lowering decides on enumerators, the backend reads the text', floor=80,
                 oracle='QBE IL reference, instruction index; cproc names its enumerators I + the mnemonic in upper case')
    from eai import Interp, read_cstr
    it = Interp(prog)
    tab = it.gobj('instname')
    names = cmodel.instnames(prog)
    n = 0
    for v, en in sorted(names.items()):
        if en in ('INONE', 'IARG', 'IVARARG'): continue        # IARG / IVARARG are markers inside a call's argument list, never printed by name (C03.j decides how they are printed)
        p = tab.f.get((v,))
        sp = bytes(read_cstr(it, p)).decode() if isinstance(p, Ptr) else None
        n += 1
        r.instance(sp == en[1:].lower(), 'mnemonic:%s' % en, 'ops.h', 'the instruction %s is printed as %r; QBE calls it %r' % (en, sp, en[1:].lower()))
    if n < 80:
        raise AnalysisBroken('only %d instruction kinds found' % n)
    r.exhaustive = True


# ------------------------------------------------------------------ C03.n where the size of a variably modified typedef is computed

def rule_vla_typedef(chk, prog, tier):
    r = chk.rule('C03.n', 'the size of a variably modified type named by a block-scope typedef is computed when the typedef declaration is reached (6.7.8p3), so the temporary that holds it is defined in a block that dominates every use of the name; '
                 'computing it lazily at the first object declared with the name leaves later objects on other paths with an undefined temporary', floor=3, oracle='C11 6.7.8p3; QBE: a temporary must be defined on every path to its use')
    from props import c09
    decl_fn = prog.require_func('decl', 'decl.c')
    for shape in ('int[n]', 'int[n][3]', 'int(*)[n]'):
        def runner(it):
            dw = c09.DeclWorld(prog, it); it.user['dw'] = dw
            w = dw.w
            PV = ev(prog, 'PROPVM')
            vla = it.call('mkarraytype', [w.t('int'), 0, 0]); vla.obj.f.update({('incomplete',): 0, ('size',): 0, ('prop',): PV, ('u', 'array', 'length'): w.temp(w.t('int'), 'n')})
            if shape == 'int[n]': T = vla
            elif shape == 'int[n][3]':
                inner = it.call('mkarraytype', [w.t('int'), 0, 3]); vla.obj.f[('base',)] = inner; T = vla
            else:
                T = w.mkptr(vla); T.obj.f[('prop',)] = it.load(T.obj, ('prop',)) | PV
            base_declspecs = it.models['declspecs']
            def declspecs(i2, a, e):
                base_declspecs(i2, a, e)
                i2.assign(a[1].obj, a[1].path, ev(prog, 'SCTYPEDEF'))
                return StructVal({('type',): T, ('qual',): 0, ('expr',): None})
            def declarator(i2, a, e):
                s_, base, name, funcscope, allowabstract = a
                i2.assign(name.obj, name.path, dw.name); i2.assign(funcscope.obj, funcscope.path, None)
                return StructVal({('type',): T, ('qual',): 0, ('expr',): None})
            it.models.update(cmodel.backend_models(prog))
            it.models.update({'declspecs': declspecs, 'declarator': declarator, 'funcexpr': lambda i2, a, e: cmodel.val('len'), 'convert': lambda i2, a, e: a[3]})
            it.user['cur'] = c09.D('obj', 'block', ()); it.user['semi'] = [False, True]
            dw.tokobj.f[('kind',)] = ev(prog, 'TSEMICOLON')
            s_ = dw.block(); f = Ptr(Obj('curfunc', 'heap'), ())
            it.call(decl_fn, [s_, f])
            return it.load(vla.obj, ('u', 'array', 'size')) is not None, len([e_ for e_ in it.events if e_[0] == 'inst'])
        runs = explore(prog, runner, c09.decl_models(prog, None), max_runs=4, on_unsupported='keep')
        key = 'vla-typedef:typedef %s T;' % shape
        if len(runs) != 1 or runs[0].outcome != 'return':
            raise AnalysisBroken('%s: %s' % (key, [(x.outcome, x.detail) for x in runs][:2]))
        has, ninst = runs[0].value
        r.instance(has and ninst >= 1, key, 'decl.c:%s' % decl_fn.get('line'), 'after the typedef declaration the size of the array type must have been computed (instructions emitted: %d, size value present: %s)' % (ninst, has))
    r.exhaustive = False


# ------------------------------------------------------------------ C03.j the printer

def rule_printer(chk, prog, tier):
    r = chk.rule('C03.j', 'emitfunc prints exactly the function it is given, in QBE syntax: signature (export, return class or aggregate type, parameter classes/types, ...), one label per block, phi, every instruction with its result, class, mnemonic and operands in order, call argument lists with the variadic marker in place, and the terminator of every block',
                 floor=6, oracle='QBE IL reference: function definitions, instructions, jumps, phi')
    import re
    from props import c07
    fn = prog.require_func('emitfunc', 'qbe.c')
    names = cmodel.instnames(prog)
    iname = prog.gvar('instname', 'qbe.c')
    def toks(text):
        out = []
        for line in text.split('\n'):
            out += re.findall(r'[%$@:][A-Za-z0-9_.]+|[sd]_[-+0-9a-zA-Z.]+|[A-Za-z_][A-Za-z0-9_]*|\d+|\.\.\.|[=(){},]', line) + ['<nl>']
        while out and out[-1] == '<nl>': out.pop()
        return out
    variants = [dict(ret='int', vararg=0, export=1, nparams=2), dict(ret='void', vararg=1, export=0, nparams=1), dict(ret='struct', vararg=0, export=1, nparams=3), dict(ret='long', vararg=1, export=1, nparams=0),
                dict(ret='double', vararg=0, export=0, nparams=2), dict(ret='int', vararg=0, export=1, nparams=1, main=1),
                dict(ret='void', vararg=0, export=1, nparams=0, main=1), dict(ret='int', vararg=0, export=0, nparams=0, main=1), dict(ret='long', vararg=0, export=1, nparams=0, main=1)]
    for vi, var in enumerate(variants):
        expect = []
        def runner(it):
            del expect[:]
            w = World(prog, it=it, target='x86_64-sysv')
            def S(x): return Ptr(it.mkstr(list(x.encode()), x), (0,))
            def V(kind, name=None, id_=0, thread=False):
                o = Obj('value', 'heap'); o.f.update({('kind',): ev(prog, kind) | (ev(prog, 'VALUE_THREAD') if thread else 0), ('id',): id_, ('u', 'name'): S(name) if name else None}); return Ptr(o, ())
            def const(n):
                o = Obj('value', 'heap'); o.f.update({('kind',): ev(prog, 'VALUE_INTCONST'), ('id',): 0, ('u', 'i'): n}); return Ptr(o, ())
            def fconst(kind, x):
                o = Obj('value', 'heap'); o.f.update({('kind',): ev(prog, kind), ('id',): 0, ('u', 'f'): x}); return Ptr(o, ())
            def inst(kind, cls, a0, a1, resid):
                o = Obj('inst', 'heap'); o.f.update({('kind',): ev(prog, kind), ('class',): cls, ('arg', 0): a0, ('arg', 1): a1, ('res', 'kind'): ev(prog, 'VALUE_TEMP') if resid else 0, ('res', 'id'): resid, ('res', 'u', 'name'): None})
                return Ptr(o, ())
            def block(name, id_, insts, jump):
                o = Obj('block:' + name, 'heap')
                o.f.update({('label', 'kind'): ev(prog, 'VALUE_LABEL'), ('label', 'u', 'name'): S(name), ('label', 'id'): id_, ('jump', 'kind'): 0, ('phi', 'res', 'kind'): 0, ('next',): None})
                arr = Obj('instarr', 'heap'); arr.elemsize = 8
                for k, i_ in enumerate(insts): arr.f[(k,)] = i_
                o.f[('insts', 'val')] = Ptr(arr, (0,)) if insts else None; o.f[('insts', 'len')] = 8 * len(insts)
                return o
            stype = w.mkstruct(size=12, align=4); stype.obj.f[('value',)] = V('VALUE_TYPE', 's', 7)
            T = {'int': w.t('int'), 'long': w.t('long'), 'double': w.t('double'), 'void': w.t('void'), 'struct': stype, 'char': w.t('char')}
            ptypes = ['int', 'struct', 'long'][:var['nparams']]
            ft = it.call('mktype', [ev(prog, 'TYPEFUNC'), 0]); ft.obj.f.update({('base',): T[var['ret']], ('u', 'func', 'isvararg'): var['vararg'], ('u', 'func', 'nparam'): len(ptypes)})
            prev = None; first = None
            for pn in ptypes:
                pd = Obj('paramdecl', 'heap'); pd.f.update({('type',): T[pn], ('next',): None, ('name',): None})
                if prev is None: first = Ptr(pd, ())
                else: prev.f[('next',)] = Ptr(pd, ())
                prev = pd
            ft.obj.f[('u', 'func', 'params')] = first
            pt = Obj('paramtemps', 'heap')
            for k in range(len(ptypes)): pt.f.update({(k, 'kind'): ev(prog, 'VALUE_TEMP'), (k, 'id'): k + 1, (k, 'u', 'name'): None})
            t1 = Ptr(pt, (0,)) if ptypes else const(1)
            g = V('VALUE_GLOBAL', 'gv'); sl = V('VALUE_GLOBAL', 'string', 3); tg = V('VALUE_GLOBAL', 'tls', 0, thread=True); callee = V('VALUE_GLOBAL', 'callee')
            i_add = inst('IADD', ord('w'), t1, const(5), 10)
            i_ld = inst('ILOADL', ord('l'), g, None, 11)
            i_st = inst('ISTOREW', 0, Ptr(i_add.obj, ('res',)), sl, 0)
            i_neg = inst('INEG', ord('d'), fconst('VALUE_DBLCONST', 1.5), None, 12)
            i_flt = inst('IADD', ord('s'), fconst('VALUE_FLTCONST', 0.25), fconst('VALUE_FLTCONST', 2.0), 13)
            i_tls = inst('ILOADW', ord('w'), tg, None, 14)
            i_call = inst('ICALL', ord('w'), callee, None, 15)
            i_a1 = inst('IARG', ord('w'), Ptr(i_add.obj, ('res',)), None, 0)
            i_a2 = inst('IARG', ord('l'), Ptr(i_ld.obj, ('res',)), stype.obj.f[('value',)], 0)
            i_va = inst('IVARARG', 0, None, None, 0)
            i_a3 = inst('IARG', ord('d'), Ptr(i_neg.obj, ('res',)), None, 0)
            i_call2 = inst('ICALL', 0, callee, None, 0)
            i_call3 = inst('ICALL', ord('l'), Ptr(i_ld.obj, ('res',)), stype.obj.f[('value',)], 16)
            i_va2 = inst('IVARARG', 0, None, None, 0)
            b1 = block('start', 1, [i_add, i_ld, i_st, i_neg, i_flt, i_tls, i_call, i_a1, i_a2, i_va, i_a3, i_call2, i_call3, i_va2], None)
            b2 = block('then', 2, [], None); b3 = block('else', 3, [inst('ICOPY', ord('w'), const(7), None, 17)], None); b4 = block('join', 4, [], None); b5 = block('dead', 5, [], None)
            b1.f[('next',)] = Ptr(b2, ()); b2.f[('next',)] = Ptr(b3, ()); b3.f[('next',)] = Ptr(b4, ()); b4.f[('next',)] = Ptr(b5, ())
            J = {k: ev(prog, k) for k in ('JUMP_NONE', 'JUMP_JMP', 'JUMP_JNZ', 'JUMP_RET', 'JUMP_HLT')}
            b1.f.update({('jump', 'kind'): J['JUMP_JNZ'], ('jump', 'arg'): Ptr(i_tls.obj, ('res',)), ('jump', 'blk', 0): Ptr(b2, ()), ('jump', 'blk', 1): Ptr(b3, ())})
            b2.f.update({('jump', 'kind'): J['JUMP_JMP'], ('jump', 'blk', 0): Ptr(b4, ())})
            b4.f.update({('phi', 'res', 'kind'): ev(prog, 'VALUE_TEMP'), ('phi', 'res', 'id'): 20, ('phi', 'res', 'u', 'name'): None, ('phi', 'class'): ord('w'), ('phi', 'blk', 0): Ptr(b2, ()), ('phi', 'blk', 1): Ptr(b3, ()),
                         ('phi', 'val', 0): const(1), ('phi', 'val', 1): Ptr(b3.f[('insts', 'val')].obj.f[(0,)].obj, ('res',))})
            last = b5
            if var.get('main'):
                b4.f[('next',)] = None; last = b4          # falls off the end of main: `ret 0` is supplied
            else:
                b4.f.update({('jump', 'kind'): J['JUMP_RET'], ('jump', 'arg'): None if var['ret'] == 'void' else Ptr(b4, ('phi', 'res'))})
                b5.f.update({('jump', 'kind'): J['JUMP_HLT']})
            f = Obj('func', 'heap')
            d = Obj('decl', 'heap'); d.f[('value',)] = V('VALUE_GLOBAL', 'main' if var.get('main') else 'fn')
            f.f.update({('start',): Ptr(b1, ()), ('end',): Ptr(last, ()), ('name',): S('main' if var.get('main') else 'fn'), ('type',): ft, ('decl',): Ptr(d, ()), ('paramtemps',): Ptr(pt, (0,))})
            M = c07.out_models(); del M['emitname']
            it.models.update(M)
            it.models['xmalloc'] = lambda i2, a, e: Ptr(Obj('heap@%s' % e.get('line'), 'heap'), ())
            it.call(fn, [Ptr(f, ()), var['export']])
            return ''.join(e_[1] for e_ in it.events if e_[0] == 'text')
        runs = explore(prog, runner, {}, max_runs=4, on_unsupported='keep')
        if len(runs) != 1 or runs[0].outcome != 'return':
            raise AnalysisBroken('emitfunc variant %d: %s %s' % (vi, runs[0].outcome if runs else '?', runs[0].detail if runs else ''))
        text_ = runs[0].value
        # reference text, written from the QBE IL reference
        CL = {'int': 'w', 'long': 'l', 'double': 'd', 'struct': ':s.7'}
        nm = 'main' if var.get('main') else 'fn'
        ptypes = ['int', 'struct', 'long'][:var['nparams']]
        params = ', '.join('%s %%.%d' % (CL[p], k + 1) for k, p in enumerate(ptypes))
        if var['vararg']: params = params + ', ...' if params else '...'
        t1 = '%.1' if ptypes else '1'
        lines = (['export'] if var['export'] else []) + ['function %s$%s(%s) {' % ((CL[var['ret']] + ' ') if var['ret'] != 'void' else '', nm, params), '@start.1',
                 '\t%%.10 =w add %s, 5' % t1, '\t%.11 =l loadl $gv', '\tstorew %.10, $.Lstring.3', '\t%.12 =d neg d_1.5', '\t%.13 =s add s_0.25, s_2', '\t%.14 =w loadw thread $tls',
                 '\t%.15 =w call $callee(w %.10, :s.7 %.11, ..., d %.12)', '\tcall $callee()', '\t%.16 =:s.7 call %.11(...)', '\tjnz %.14, @then.2, @else.3', '@then.2', '\tjmp @join.4', '@else.3', '\t%.17 =w copy 7',
                 '@join.4', '\t%.20 =w phi @then.2 1, @else.3 %.17']
        if var.get('main'): lines += ['\tret 0' if var['ret'] == 'int' else '\tret']       # 5.1.2.2.3: only an int main returns 0 by falling off its end
        else: lines += ['\tret' + ('' if var['ret'] == 'void' else ' %.20'), '@dead.5', '\thlt']
        lines += ['}']
        want = toks('\n'.join(lines))
        got = toks(text_)
        # floating constants: compare by value
        def norm(t): 
            m = re.match(r'^([sd])_(.*)$', t)
            if m:
                try: return (m.group(1), float(m.group(2)))
                except ValueError: return t
            return t
        ok = [norm(t) for t in got] == [norm(t) for t in want]
        det = ''
        if not ok:
            k = next((j for j, (a, b) in enumerate(zip(got, want)) if norm(a) != norm(b)), min(len(got), len(want)))
            det = 'first difference at token %d: printed `%s`, the function says `%s`' % (k, ' '.join(got[max(0, k - 4):k + 4]), ' '.join(want[max(0, k - 4):k + 4]))
        r.instance(ok, 'printer:variant%d(ret=%s,params=%d%s%s%s)' % (vi, var['ret'], var['nparams'], ',vararg' if var['vararg'] else '', ',export' if var['export'] else '', ',main' if var.get('main') else ''), 'qbe.c:%s' % fn.get('line'), det)
    r.exhaustive = False


def run(chk, tier):
    prog = facts.programs()['cproc-qbe']
    chk.guard('C03.a', lambda: rule_terminators(chk, prog, tier))
    chk.guard('C03.c', lambda: rule_fields(chk, prog, tier))
    chk.guard('C03.g', lambda: rule_phi(chk, prog, tier))
    chk.guard('C03.h', lambda: rule_dataitem(chk, prog, tier))
    chk.guard('C03.f', lambda: rule_streams(chk, prog, tier))
    chk.guard('C03.e', lambda: c19.rule_flush(chk, prog, tier))
    chk.guard('C03.i', lambda: rule_undefined_labels(chk, prog, tier))
    chk.guard('C03.j', lambda: rule_printer(chk, prog, tier))
    chk.guard('C03.k', lambda: rule_block_chain(chk, prog, tier))
    chk.guard('C03.l', lambda: rule_alloc_chain(chk, prog, tier))
    chk.guard('C03.m', lambda: rule_mnemonics(chk, prog, tier))
    chk.guard('C03.n', lambda: rule_vla_typedef(chk, prog, tier))
    from props import c01f
    chk.guard('C01.f', lambda: c01f.rule_statements(chk, prog, tier))     # statements: every jump the statement lowering emits goes to a block it also places
    from props import c07
    chk.guard('C07.b', lambda: c07.rule_emitdata(chk, prog, tier))          # a data definition has exactly the size of the object: items and zero padding add up
    from props import c09
    chk.guard('C09.k', lambda: c09.rule_tentative_objects(chk, prog, tier))   # ... with the alignment of the (completed) type: `align 0` is not valid for the backend
