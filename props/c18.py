"""C18 - a failing stage makes the driver fail cleanly.

driver.c is interpreted abstractly with the process API as nondeterministic event models: which child
terminates next and how (exit 0, exit 1, SIGSEGV, SIGKILL), and which spawn fails, are explored
exhaustively for each pipeline shape (explicit-state exploration of all schedules).  Every trace must satisfy:

 P1 exit status: non-zero iff some stage failed / could not be spawned
 P2 the link step is never started after a failure
 P3 the output file the failing pipeline was producing is unlinked
 P4 every temporary object created (mkstemp) is unlinked before the driver exits
 P5 on the first failure every still-running stage is sent SIGTERM, and every child is reaped before exit
 P6 the wait loop's bookkeeping matches the children (no wait without children: would hang or abort)
 P7 no input file named on the command line is ever unlinked
 P8 pipe write ends: close-on-exec, wired to the producer's stdout, closed by the driver before it waits (EOF reaches the consumer)
"""
import facts
from facts import AnalysisBroken
import driver
from driver import run_driver, Exit
import par

TECHNIQUE = 'abstract interpretation of driver.c with nondeterministic models of spawn/wait (all termination orders x failure modes x spawn faults explored by re-execution DFS); trace properties checked on every path'

SHAPES = [
    (['-E', 'x.c'], 'E'), (['-c', 'x.s'], 'c-asm'), (['-S', 'x.i'], 'S-cppout'), (['-S', 'x.c'], 'S-c'), (['-c', 'x.c'], 'c-c'),
    (['-c', '-o', 'out.o', 'x.qbe'], 'c-o-qbe'), (['-emit-qbe', '-o', 'out.qbe', 'x.c'], 'emitqbe-o'), (['-o', '-', '-S', 'x.c'], 'S-stdout'),
    (['x.s'], 'link-asm'), (['a.h', 'b.s'], 'link-hdr-asm'), (['-x', 'c-header', 'a.c', '-x', 'none', 'y.o'], 'link-xhdr-obj'), (['x.o'], 'link-obj'), (['x.s', 'y.s'], 'link-2asm'), (['x.qbe', 'y.o', 'z.s'], 'link-3'), (['y.o', 'x.s', 'z.s'], 'link-obj-first'),      # an object file before the sources: the clean-up of earlier temporaries skips it and goes on
   
]
THOROUGH = [(['x.c'], 'link-c'), (['x.c', 'y.s'], 'link-c-asm'), (['-c', '-o', 'o.o', 'x.c'], 'c-o-c')]


def analyse(run, label):
    """-> list of (prop, ok, detail)"""
    it = run.interp
    dw = it.user['dw']
    status, how, _ = run.value
    evs = run.events
    out = []
    fail_idx = None
    for i, e in enumerate(evs):
        if (e[0] == 'reap' and e[2] != 0 and not (e[2] == 15 and e[1] in killed_before(evs, i))) or e[0] == 'spawn-fail':
            fail_idx = i; break
    failed = fail_idx is not None
    trace = ' '.join(fmt(e) for e in evs if e[0] in ('spawn', 'spawn-fail', 'reap', 'kill', 'unlink', 'mkstemp', 'fatal', 'exit'))
    out.append(('P1', (status != 0) == failed if how != 'usage' else True,
                'a stage %s but the driver exits %s  [%s]' % ('failed' if failed else 'did not fail', status, trace)))
    if failed:
        ld_after = [e for e in evs[fail_idx:] if e[0] == 'spawn' and e[2] and e[2][0] == 'ld' and not is_fail_of_ld(evs, fail_idx)]
        out.append(('P2', not ld_after, 'link step started after a stage failed  [%s]' % trace))
        # output of the failing pipeline: the -o argument of the last spawn before the failure in this pipeline
        outs = [av[av.index('-o') + 1] for e in evs[:fail_idx + 1] if e[0] == 'spawn' for av in [list(e[2])] if '-o' in av and av[0] != 'ld']
        # only the pipeline in progress: spawns since the last completed pipeline (all of its pids reaped)
        pend = pipeline_output(evs, fail_idx)
        if pend is not None:
            out.append(('P3', pend in [e[1] for e in evs if e[0] == 'unlink'], 'output %s of the failing pipeline is not removed  [%s]' % (pend, trace)))
    temps = [e[1] for e in evs if e[0] == 'mkstemp']
    unl = [e[1] for e in evs if e[0] == 'unlink']
    left = [t for t in temps if t not in unl]
    out.append(('P4', not left, 'temporary object(s) %s left behind (exit via %s)  [%s]' % (left, how, trace)))
    if failed:
        # children alive at the moment of the first failure must be sent SIGTERM
        live = set()
        for e in evs[:fail_idx + 1]:
            if e[0] == 'spawn': live.add(e[1])
            if e[0] == 'reap': live.discard(e[1])
        killed = {e[1] for e in evs[fail_idx:] if e[0] == 'kill'}
        out.append(('P5a', live <= killed, 'children %s still running at the first failure were not terminated  [%s]' % (sorted(live - killed), trace)))
    out.append(('P5b', not dw.live, 'children %s never reaped before exit  [%s]' % (sorted(dw.live), trace)))
    argv_in = [a for a in run.value[2][1:] if isinstance(a, str)]
    inputs_named = {a for i, a in enumerate(argv_in) if not a.startswith('-') and (i == 0 or argv_in[i - 1] not in ('-o', '-x'))}
    foreign = [u for u in unl if u in inputs_named]
    out.append(('P7', not foreign, 'the driver deletes its own input file %s  [%s]' % (foreign, trace)))
    out.append(('P6', not any(e[0] == 'wait-nochild' for e in evs), 'wait() called with no child left (bookkeeping of running stages is off)  [%s]' % trace))
    # P8 the write end of every inter-stage pipe exists in exactly one process once the producer runs: it is close-on-exec (no other child inherits it) and the driver closes its own copy before it
    # blocks in wait(); otherwise the consumer never sees end-of-file and the driver hangs
    import fcntl as _f
    for i, e in enumerate(evs):
        if e[0] != 'pipe': continue
        rfd, wfd = e[1], e[2]
        j = next((k for k in range(i + 1, len(evs)) if evs[k][0] in ('spawn', 'spawn-fail')), None)
        if j is None: continue
        cloexec = any(x[0] == 'fcntl' and x[1] == wfd and x[2] == _f.F_SETFD and x[3] is not None and x[3] & _f.FD_CLOEXEC for x in evs[i:j])
        wired = any(x[0] == 'dup2' and x[1] == wfd and x[2] == 1 for x in evs[i:j])
        ptrace = ' '.join('%s%s' % (x[0], tuple(x[1:])) if x[0] != 'spawn' else 'spawn(%s)' % x[2][0] for x in evs[i:j + 4] if x[0] in ('pipe', 'fcntl', 'dup2', 'close', 'spawn', 'spawn-fail', 'reap'))
        out.append(('P8', cloexec, 'the write end (fd %d) of the pipe is not marked close-on-exec with fcntl(fd, F_SETFD, FD_CLOEXEC) before the producer is spawned: processes started later inherit it and the consumer never sees end-of-file  [%s]' % (wfd, ptrace)))
        out.append(('P8', wired, 'the write end (fd %d) of the pipe is not made the standard output of the stage spawned next  [%s]' % (wfd, ptrace)))
        k2 = next((k for k in range(j + 1, len(evs)) if evs[k][0] in ('reap', 'wait-nochild')), len(evs))
        closed = any(x[0] == 'close' and x[1] == wfd for x in evs[j if evs[j][0] == 'spawn-fail' else j + 1:k2])
        out.append(('P8', closed, 'the driver keeps its copy of the write end (fd %d) open while it waits: the consumer never sees end-of-file and the driver hangs  [%s]' % (wfd, ptrace)))
    return out


def killed_before(evs, i):
    return {e[1] for e in evs[:i] if e[0] == 'kill'}


def is_fail_of_ld(evs, i):
    e = evs[i]
    return e[0] == 'spawn-fail' and e[1] and e[1][0] == 'ld'


def pipeline_output(evs, fail_idx):
    """-o operand of the pipeline that was being run when the failure happened (None if it has no named output)"""
    # walk back to the start of the current pipeline: after the last point where no child was alive
    live = set(); start = 0
    for i, e in enumerate(evs[:fail_idx]):
        if e[0] == 'spawn': live.add(e[1])
        if e[0] == 'reap':
            live.discard(e[1])
            if not live: start = i + 1
    outp = None
    for e in evs[start:]:
        if e[0] in ('spawn', 'spawn-fail'):
            av = list(e[2] if e[0] == 'spawn' else e[1])
            if av and av[0] == 'ld':
                continue
            if '-o' in av:
                outp = av[av.index('-o') + 1]
    return outp


def fmt(e):
    if e[0] == 'spawn': return 'spawn(%s)=%d' % (e[2][0], e[1])
    if e[0] == 'spawn-fail': return 'spawn(%s)=FAIL' % (e[1][0] if e[1] else '?')
    if e[0] == 'reap': return 'reap(%d,%s)' % (e[1], {0: 'ok', 256: 'exit1', 11: 'SEGV', 9: 'KILL', 15: 'TERM'}.get(e[2], e[2]))
    if e[0] == 'kill': return 'kill(%d)' % e[1]
    return '%s(%s)' % (e[0], e[1] if len(e) > 1 else '')


def rule_failures(chk, prog, tier):
    rules = {
        'P1': chk.rule('C18.P1', 'the driver exits non-zero iff some stage failed, was killed or could not be spawned', floor=100),
        'P2': chk.rule('C18.P2', 'the link step is never started after a stage failed', floor=50),
        'P3': chk.rule('C18.P3', 'the output the failing pipeline was producing is unlinked', floor=50),
        'P4': chk.rule('C18.P4', 'every temporary object created is unlinked before the driver exits (success or failure)', floor=100),
        'P5a': chk.rule('C18.P5a', 'on the first failure every still-running stage is sent SIGTERM', floor=50),
        'P5b': chk.rule('C18.P5b', 'every child process is reaped before the driver exits', floor=100),
        'P7': chk.rule('C18.P7', 'the driver never unlinks one of the input files named on its command line', floor=100),
        'P6': chk.rule('C18.P6', 'the wait loop never waits without a child (count of running stages matches the children)', floor=100),
        'P8': chk.rule('C18.P8', 'the write end of every inter-stage pipe is close-on-exec, becomes the standard output of the producing stage, and is closed by the driver before it waits: end-of-file reaches the consumer when the producer ends (no hang)', floor=50),
    }
    shapes = SHAPES + (THOROUGH if tier == 'thorough' else [])
    jobs = []
    for argv, label in shapes:
        nst = 5
        jobs.append((argv, label, {'outcomes': [0, 256], 'ld_outcomes': [0, 256]}, 'exit1'))
        jobs.append((argv, label, {'outcomes': [0, 11], 'ld_outcomes': [0, 11]}, 'signal'))
        jobs.append((argv, label, {'outcomes': [0, 256], 'ld_outcomes': [0], 'foreign': 1}, 'exit1+inherited-child'))      # wait() may also report a process that is no stage of this pipeline
        if tier == 'thorough':
            jobs.append((argv, label, {'outcomes': [0, 256, 9], 'ld_outcomes': [0, 9]}, 'mixed'))
        for k in range(0, 7):
            jobs.append((argv, label, {'outcomes': [0], 'ld_outcomes': [0], 'spawn': k}, 'spawnfail%d' % k))
            jobs.append((argv, label, {'outcomes': [0, 256], 'ld_outcomes': [0], 'spawn': k}, 'spawnfail%d+exit1' % k))
    def work(job):
        argv, label, faults, fl = job
        runs = run_driver(prog, ['cproc'] + argv, faults=faults, max_runs=60000)
        res = {}
        nruns = 0
        for run in runs:
            if run.outcome != 'return':
                raise AnalysisBroken('driver %s [%s]: %s %s' % (argv, fl, run.outcome, run.detail))
            if faults.get('spawn') is not None and not any(e[0] == 'spawn-fail' for e in run.events):
                continue      # this spawn index does not exist for the shape (covered by the no-fault jobs)
            nruns += 1
            for prop, ok, det in analyse(run, label):
                key = '%s:%s:%s' % (label, fl, classify(prop, run))
                cur = res.get((prop, key))
                if cur is None or (cur[0] and not ok):
                    res[(prop, key)] = (ok, det)
        return res, nruns
    total = 0
    for res, n in par.pmap(work, jobs):
        total += n
        for (prop, key), (ok, det) in res.items():
            rules[prop].instance(ok, key, 'driver.c:buildobj/buildexe', det)
    for r in rules.values():
        r.exhaustive = True
        r.note('%d schedules explored in total' % total)


def classify(prop, run):
    """stable key component: which stage failed first and how the driver left"""
    evs = run.events
    first = None
    for i, e in enumerate(evs):
        if e[0] == 'spawn-fail':
            first = 'cannot-spawn-%s' % (e[1][0] if e[1] else '?'); break
        if e[0] == 'reap' and e[2] != 0 and not (e[2] == 15):
            tool = next((x[2][0] for x in evs if x[0] == 'spawn' and x[1] == e[1]), '?')
            nth = sum(1 for x in evs[:i] if x[0] == 'spawn' and x[2][0] == tool and x[1] <= e[1])
            first = '%s#%d-fails' % (tool, nth); break
    return first or 'all-succeed'


def run(chk, tier):
    prog = facts.programs()['cproc']
    chk.guard('C18', lambda: rule_failures(chk, prog, tier))
