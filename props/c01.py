"""C01 - structural clauses: the lowering tables every compiled program goes through.

C01.a instruction selection (funcexpr EXPRBINARY / unary minus)  vs C 6.5 + QBE
C01.b conversion table (convert)                                  vs C 6.3 + QBE
C01.c load/store table (qbetype), funccopy width dispatch          vs QBE
C01.e truthiness normalisation (funcjnz)
C01.d exhaustiveness across sibling switches
C01.g bit-field extraction/insertion shifts (funcbits / funcstore)

All tables are extracted by E-AI partial evaluation of the compiler's own functions over its
finite static descriptor domain (type descriptors x operator tokens).  No C input program is
involved and nothing from /repo is executed.
"""
import facts
from facts import AnalysisBroken
from eai import Interp, Obj, Ptr, Sym, SV, Terminal, Unsupported, StructVal, explore, UNINIT
import cmodel
from cmodel import World, ev, backend_models, instnames, val

TECHNIQUE = 'abstract interpretation (partial evaluation over static type/operator descriptors) + AST table extraction compared with C11/QBE oracle tables'

# oracle attributes of the scalar types on LP64 (C11 + psABI), independent of type.c
def oracle_types(signedchar):
    return {
        'bool': (1, False, 'int'), 'char': (1, bool(signedchar), 'int'), 'schar': (1, True, 'int'), 'uchar': (1, False, 'int'),
        'short': (2, True, 'int'), 'ushort': (2, False, 'int'), 'int': (4, True, 'int'), 'uint': (4, False, 'int'),
        'long': (8, True, 'int'), 'ulong': (8, False, 'int'), 'llong': (8, True, 'int'), 'ullong': (8, False, 'int'),
        'float': (4, None, 'flt'), 'double': (8, None, 'flt'), 'ldouble': (16, None, 'flt'),
        'ptr': (8, False, 'int'), 'nullptr': (8, False, 'int'), 'enum_uint': (4, False, 'int'), 'enum_int': (4, True, 'int'),      # nullptr_t has the representation of a pointer (C23 7.21.2)
        'enum_long': (8, True, 'int'), 'enum_ulong': (8, False, 'int'), 'enum_uchar': (1, False, 'int'), 'enum_short': (2, True, 'int'),
    }

SIGNEDCHAR = {'x86_64-sysv': 1, 'aarch64': 0, 'riscv64': 0}


def universe(w):
    u = {n: w.t(n) for n in ['bool', 'char', 'schar', 'uchar', 'short', 'ushort', 'int', 'uint', 'long', 'ulong',
                             'llong', 'ullong', 'float', 'double', 'ldouble']}
    u['ptr'] = w.mkptr(w.t('int'))
    u['nullptr'] = w.t('nullptr')
    u['enum_uint'] = w.mkenum(w.t('uint'))
    u['enum_int'] = w.mkenum(w.t('int'))
    u['enum_long'] = w.mkenum(w.t('long'))
    u['enum_ulong'] = w.mkenum(w.t('ulong'))
    u['enum_uchar'] = w.mkenum(w.t('uchar'))
    u['enum_short'] = w.mkenum(w.t('short'))
    return u


def insts(events):
    return [(e[1], e[2]) for e in events if e[0] == 'inst']


def chain_ok(events, inp, result):
    """every instruction consumes the previous result (or the input), and the function returns the last"""
    cur = inp
    for e in events:
        if e[0] != 'inst':
            continue
        if e[3] != cur:
            return False
        cur = e[5]
    return result == cur


# ------------------------------------------------------------------ C01.b

def oracle_convert(dst, src, T):
    """acceptable instruction sequences [(op, class)] for convert(dst <- src).  None = must be rejected (fatal)."""
    if dst == 'void':
        return [[]]
    ds, dsg, dk = T[dst]
    ss, ssg, sk = T[src]
    if ds == 16 or ss == 16:
        return None
    ext = {1: ('IEXTSB', 'IEXTUB'), 2: ('IEXTSH', 'IEXTUH'), 4: ('IEXTSW', 'IEXTUW')}
    if dst == 'bool':
        if sk == 'int':
            if ss == 1: return [[('IEXTUB', 'w'), ('ICNEW', 'w')], [('IEXTSB', 'w'), ('ICNEW', 'w')]]
            if ss == 2: return [[('IEXTUH', 'w'), ('ICNEW', 'w')], [('IEXTSH', 'w'), ('ICNEW', 'w')]]
            if ss == 4: return [[('ICNEW', 'w')]]
            return [[('ICNEL', 'w')]]
        return [[('ICNES' if ss == 4 else 'ICNED', 'w')]]
    if dk == 'int':
        cls = 'l' if ds == 8 else 'w'
        if sk == 'int':
            if ds <= ss:
                return [[]]
            e = ext[ss][0 if ssg else 1]
            return [[(e, cls)]]
        op = {(4, True): 'ISTOSI', (4, False): 'ISTOUI', (8, True): 'IDTOSI', (8, False): 'IDTOUI'}[(ss, bool(dsg))]
        if ds < 4:
            # narrow destination: only the low bits are significant, signed conversion of an in-range value is equally right
            alt = {(4): 'ISTOSI', (8): 'IDTOSI'}[ss]
            return [[(op, cls)], [(alt, cls)]]
        return [[(op, cls)]]
    cls = 'd' if ds == 8 else 's'
    if sk == 'int':
        op = {(True, False): 'ISWTOF', (False, False): 'IUWTOF', (True, True): 'ISLTOF', (False, True): 'IULTOF'}[(bool(ssg), ss == 8)]
        if ss < 4 and src != 'bool':
            e = ext[ss][0 if ssg else 1]
            # after a correct extension either word conversion is right for zero-extended values; signed must stay signed
            seqs = [[(e, 'w'), (op, cls)]]
            if not ssg:
                seqs.append([(e, 'w'), ('ISWTOF', cls)])
            return seqs
        if src == 'bool':
            return [[(op, cls)], [('ISWTOF', cls)], [('IEXTUB', 'w'), (op, cls)], [('IEXTUB', 'w'), ('ISWTOF', cls)]]
        return [[(op, cls)]]
    if ss == ds:
        return [[]]
    return [[('IEXTS', 'd')]] if ss < ds else [[('ITRUNCD', 's')]]


def rule_convert(chk, prog, tier):
    r = chk.rule('C01.b', 'convert(dst,src) emits the conversion C 6.3 requires under the back end\'s "narrow values are unnormalised" invariant',
                 floor=400, oracle='DESIGN A.1; C11 6.3.1.2-6.3.1.5')
    fn = prog.require_func('convert', 'qbe.c')
    models = backend_models(prog)
    targets = cmodel.TARGETS if tier == 'thorough' else ['x86_64-sysv', 'aarch64']
    for target in targets:
        T = oracle_types(SIGNEDCHAR[target])
        names = list(T.keys())
        for dst in names + ['void']:
            for src in names:
                def runner(it, dst=dst, src=src):
                    w = World(prog, it=it, target=target)
                    u = universe(w)
                    u['void'] = w.t('void')
                    inp = val('in')
                    f = Ptr(Obj('func', 'heap'), ())
                    res = w.it.call(fn, [f, u[dst], u[src], inp])
                    return (inp, res)
                runs = explore(prog, runner, models, max_runs=8)
                key = 'convert:dst=%s,src=%s' % (dst, src)
                if target != 'x86_64-sysv':
                    if 'char' not in (dst, src):
                        continue        # only plain char differs between targets
                    key += ',target=' + target
                where = '%s:%s' % ('qbe.c', fn.get('line'))
                if len(runs) != 1:
                    raise AnalysisBroken('convert(%s,%s): %d paths, expected a deterministic row' % (dst, src, len(runs)))
                run = runs[0]
                want = oracle_convert(dst, src, T)
                got = insts(run.events)
                if want is None:
                    ok = run.outcome.startswith('terminal')
                    det = 'long double operand must be rejected (fatal); got %s %s' % (run.outcome, got)
                elif run.outcome != 'return':
                    ok = False
                    det = 'expected one of %s, got %s' % (want, run.outcome)
                else:
                    inp, res = run.value
                    ok = got in want and (chain_ok(run.events, inp, res) if got else (res == inp or (dst == 'void' and res is None)))
                    if ok:
                        # constants of the zero tests
                        for e in run.events:
                            if e[0] == 'inst' and e[1] in ('ICNEW', 'ICNEL'):
                                ok = ok and e[4] == ('const', 0)
                            if e[0] == 'inst' and e[1] in ('ICNES', 'ICNED'):
                                ok = ok and isinstance(e[4], tuple) and e[4][0] == 'fconst' and e[4][2] == 0 and \
                                    e[4][1] == ev(prog, 'VALUE_FLTCONST' if e[1] == 'ICNES' else 'VALUE_DBLCONST')
                    det = 'expected one of %s, got %s (dataflow chained: %s)' % (want, got, ok)
                r.instance(ok, key, where, det, sample='%s -> %s' % (key, got))
    r.exhaustive = True


# ------------------------------------------------------------------ C01.a

BINOPS = ['TMUL', 'TDIV', 'TMOD', 'TADD', 'TSUB', 'TSHL', 'TSHR', 'TBOR', 'TBAND', 'TXOR',
          'TLESS', 'TGREATER', 'TLEQ', 'TGEQ', 'TEQL', 'TNEQ']
CMP = {'TLESS': 'LT', 'TGREATER': 'GT', 'TLEQ': 'LE', 'TGEQ': 'GE'}


def oracle_binop(op, ty, T):
    """-> (opcode, class) or None if the row is unreachable for this type, 'fatal' for long double"""
    size, sg, kind = T[ty]
    if kind == 'flt':
        if op in ('TMOD', 'TSHL', 'TSHR', 'TBOR', 'TBAND', 'TXOR'):
            return None
        if size == 16:
            return 'fatal'
        cls = 's' if size == 4 else 'd'
    else:
        cls = 'w' if size <= 4 else 'l'
    simple = {'TMUL': 'IMUL', 'TADD': 'IADD', 'TSUB': 'ISUB', 'TSHL': 'ISHL', 'TBOR': 'IOR', 'TBAND': 'IAND', 'TXOR': 'IXOR'}
    if op in simple:
        return (simple[op], cls)
    if op == 'TDIV':
        return ('IDIV' if kind == 'flt' or sg else 'IUDIV', cls)
    if op == 'TMOD':
        return ('IREM' if sg else 'IUREM', cls)
    if op == 'TSHR':
        return ('ISAR' if sg else 'ISHR', cls)
    if op in CMP:
        if kind == 'flt':
            return ('IC%s%s' % (CMP[op], cls.upper()), 'w')
        return ('IC%s%s%s' % ('S' if sg else 'U', CMP[op], cls.upper()), 'w')
    if op in ('TEQL', 'TNEQ'):
        return ('IC%s%s' % ('EQ' if op == 'TEQL' else 'NE', cls.upper()), 'w')
    raise AssertionError(op)


def rule_binop(chk, prog, tier):
    r = chk.rule('C01.a', 'funcexpr selects the QBE opcode and class C 6.5.5-6.5.14 prescribe for (operator, operand type)',
                 floor=140, oracle='DESIGN A.1')
    fn = prog.require_func('funcexpr')
    models = backend_models(prog)
    # operators mkbinaryexpr can store into e->op: every case label of its switch
    mk = prog.require_func('mkbinaryexpr', 'expr.c')
    produced = set()
    for n in facts.walk(mk):
        if n['kind'] == 'CaseStmt':
            produced.add(prog.cev(facts.children(n)[0]))
    tokname = {v: n for n, v in cmodel.enum_names(prog, 'tokenkind')}
    prodnames = {tokname[v] for v in produced}
    missing = set(BINOPS) - prodnames
    if missing:
        raise AnalysisBroken('mkbinaryexpr no longer produces %s' % sorted(missing))
    extra = prodnames - set(BINOPS) - {'TLOR', 'TLAND'}
    if extra:
        raise AnalysisBroken('mkbinaryexpr produces operators unknown to the oracle: %s' % sorted(extra))
    opstypes = ['int', 'uint', 'long', 'ulong', 'llong', 'ullong', 'float', 'double', 'ptr',
                'enum_uint', 'enum_int', 'enum_long', 'enum_ulong']
    targets = ['x86_64-sysv']
    for target in targets:
        T = oracle_types(SIGNEDCHAR[target])
        for op in BINOPS:
            for ty in opstypes:
                want = oracle_binop(op, ty, T)
                if want is None:
                    continue
                if ty == 'ptr' and op not in ('TADD', 'TSUB') + tuple(CMP) + ('TEQL', 'TNEQ'):
                    continue
                def runner(it, op=op, ty=ty):
                    w = World(prog, it=it, target=target)
                    u = universe(w)
                    l = w.temp(u[ty], 'l'); rr = w.temp(u['ulong'] if ty == 'ptr' and op in ('TADD', 'TSUB') else u[ty], 'r')
                    if op in CMP or op in ('TEQL', 'TNEQ'):
                        rt = u['int']
                    else:
                        rt = u[ty]
                    e = w.mkexpr('EXPRBINARY', rt, None, op=ev(prog, op), u__binary__l=l, u__binary__r=rr)
                    f = Ptr(Obj('func', 'heap'), ())
                    res = w.it.call(fn, [f, e])
                    lv = w.it.load(l.obj, ('u', 'temp')); rv = w.it.load(rr.obj, ('u', 'temp'))
                    return (lv, rv, res)
                runs = explore(prog, runner, models, max_runs=8)
                key = 'binop:%s,%s' % (op, ty)
                where = 'qbe.c:%s' % fn.get('line')
                if len(runs) != 1:
                    raise AnalysisBroken('%s: %d paths' % (key, len(runs)))
                run = runs[0]
                got = insts(run.events)
                if want == 'fatal':
                    ok = run.outcome.startswith('terminal')
                    det = 'long double arithmetic must be rejected; got %s %s' % (run.outcome, got)
                else:
                    ok = run.outcome == 'return' and got == [want]
                    if ok:
                        e0 = [e for e in run.events if e[0] == 'inst'][0]
                        lv, rv, res = run.value
                        ok = e0[3] == lv and e0[4] == rv and res == e0[5]
                    det = 'expected %s, got %s %s' % ([want], run.outcome, got)
                r.instance(ok, key, where, det, sample='%s -> %s' % (key, got))
    # unary minus
    for ty in ['int', 'uint', 'long', 'ulong', 'llong', 'ullong', 'float', 'double', 'ldouble']:
        T = oracle_types(1)
        size, sg, kind = T[ty]
        def runner(it, ty=ty):
            w = World(prog, it=it, target='x86_64-sysv')
            u = universe(w)
            b = w.temp(u[ty], 'b')
            e = w.mkexpr('EXPRUNARY', u[ty], b, op=ev(prog, 'TSUB'))
            res = w.it.call(fn, [Ptr(Obj('func', 'heap'), ()), e])
            return (w.it.load(b.obj, ('u', 'temp')), res)
        runs = explore(prog, runner, models, max_runs=8)
        run = runs[0]
        got = insts(run.events)
        key = 'unary:TSUB,%s' % ty
        if size == 16:
            ok = run.outcome.startswith('terminal'); det = 'long double must be rejected, got %s %s' % (run.outcome, got)
        else:
            cls = ('s' if size == 4 else 'd') if kind == 'flt' else ('w' if size <= 4 else 'l')
            ok = run.outcome == 'return' and got == [('INEG', cls)]
            det = 'expected neg/%s got %s' % (cls, got)
        r.instance(ok, key, 'qbe.c:%s' % fn.get('line'), det)
    r.exhaustive = True


# ------------------------------------------------------------------ C01.c

def rule_qbetype(chk, prog, tier):
    r = chk.rule('C01.c', 'qbetype(): (size, signedness, float) -> (base class, data letter, load op, store op) per QBE; funccopy load/store/increment widths agree',
                 floor=20, oracle='DESIGN A.1 memory row')
    fn = prog.require_func('qbetype', 'qbe.c')
    models = backend_models(prog)
    names = instnames(prog)
    T = oracle_types(1)
    want_tab = {
        (1, True): ('w', 'b', 'ILOADSB', 'ISTOREB'), (1, False): ('w', 'b', 'ILOADUB', 'ISTOREB'),
        (2, True): ('w', 'h', 'ILOADSH', 'ISTOREH'), (2, False): ('w', 'h', 'ILOADUH', 'ISTOREH'),
        (4, 'int'): ('w', 'w', 'ILOADW', 'ISTOREW'), (8, 'int'): ('l', 'l', 'ILOADL', 'ISTOREL'),
        (4, 'flt'): ('s', 's', 'ILOADS', 'ISTORES'), (8, 'flt'): ('d', 'd', 'ILOADD', 'ISTORED'),
    }
    for target in ['x86_64-sysv', 'aarch64']:
        T = oracle_types(SIGNEDCHAR[target])
        for ty in list(T.keys()) + ['void', 'struct', 'union']:
            if target != 'x86_64-sysv' and ty != 'char':
                continue
            def runner(it, ty=ty):
                w = World(prog, it=it, target=target)
                u = universe(w); u['void'] = w.t('void'); u['struct'] = w.mkstruct(); u['union'] = w.mkstruct(kind='TYPEUNION')
                return w.it.call(fn, [u[ty]])
            runs = explore(prog, runner, models, max_runs=4)
            run = runs[0]
            key = 'qbetype:%s%s' % (ty, '' if target == 'x86_64-sysv' else ',target=' + target)
            where = 'qbe.c:%s' % fn.get('line')
            if ty == 'ldouble':
                r.instance(run.outcome.startswith('terminal'), key, where, 'long double must be rejected, got %s' % run.outcome)
                continue
            if run.outcome != 'return' or not isinstance(run.value, StructVal):
                r.violation(key, where, 'no descriptor returned: %s' % run.outcome)
                continue
            v = run.value.f
            got = (chr(v[('base',)]) if v[('base',)] else 0, chr(v[('data',)]) if v[('data',)] else 0,
                   names.get(v[('load',)], v[('load',)]), names.get(v[('store',)], v[('store',)]))
            if ty == 'void':
                want = (0, 0, 'INONE', 'INONE')
            elif ty in ('struct', 'union'):
                want = ('l', 'l', 'ILOADL', 'ISTOREL')
            else:
                size, sg, kind = T[ty]
                want = want_tab[(size, sg)] if size < 4 else want_tab[(size, kind)]
            r.instance(got == want, key, where, 'expected %s got %s' % (want, got), sample='%s -> %s' % (key, got))
    # funccopy
    fc = prog.require_func('funccopy', 'qbe.c')
    want_fc = {1: ('ILOADUB', 'ISTOREB', 1, 'w'), 2: ('ILOADUH', 'ISTOREH', 2, 'w'), 4: ('ILOADW', 'ISTOREW', 4, 'w'),
               8: ('ILOADL', 'ISTOREL', 8, 'l'), 16: ('ILOADL', 'ISTOREL', 8, 'l'), 32: ('ILOADL', 'ISTOREL', 8, 'l')}
    for align in (1, 2, 4, 8, 16, 32):
        for units in (1, 2, 3):
            lo, so, inc, cls = want_fc[align]
            size = max(align, inc) * units if align <= 8 else align * units
            def runner(it, align=align, size=size):
                w = World(prog, it=it)
                d, s = val('dst'), val('src')
                w.it.call(fc, [Ptr(Obj('func', 'heap'), ()), d, s, size, align])
                return (d, s)
            runs = explore(prog, runner, models, max_runs=4)
            run = runs[0]
            key = 'funccopy:align=%d,units=%d' % (align, units)
            where = 'qbe.c:%s' % fc.get('line')
            if run.outcome != 'return':
                r.violation(key, where, run.outcome); continue
            evs = [e for e in run.events if e[0] == 'inst']
            d, s = run.value
            ok = True; copied = 0; cs, cd = s, d; i = 0; det = ''
            n = (size + inc - 1) // inc
            try:
                for k in range(n):
                    l, st = evs[i], evs[i + 1]
                    ok = ok and l[1] == lo and l[2] == cls and l[3] == cs and st[1] == so and st[2] == 0 and st[3] == l[5] and st[4] == cd
                    i += 2; copied += inc
                    if k < n - 1:
                        a1, a2 = evs[i], evs[i + 1]
                        ok = ok and a1[1] == 'IADD' and a1[2] == 'l' and a1[3] == cs and a1[4] == ('const', inc)
                        ok = ok and a2[1] == 'IADD' and a2[2] == 'l' and a2[3] == cd and a2[4] == ('const', inc)
                        cs, cd = a1[5], a2[5]; i += 2
                ok = ok and i == len(evs)
            except IndexError:
                ok = False
            r.instance(ok, key, where, 'expected %d x (%s,%s) stepping %d covering %d bytes; got %s' % (n, lo, so, inc, size, [(e[1], e[2]) for e in evs]))
    r.exhaustive = True


# ------------------------------------------------------------------ C01.e

def rule_jnz(chk, prog, tier):
    r = chk.rule('C01.e', 'funcjnz tests the whole value of the controlling type: sub-word ints extended, 8-byte and floating values compared with zero',
                 floor=20, oracle='QBE jnz tests a word; C 6.8.4.1p2 "compares unequal to 0"')
    fn = prog.require_func('funcjnz')
    models = backend_models(prog)
    T = oracle_types(1)
    JNZ = ev(prog, 'JUMP_JNZ')
    for ty in T:
        size, sg, kind = T[ty]
        def runner(it, ty=ty):
            w = World(prog, it=it, target='x86_64-sysv')
            u = universe(w)
            blk = Obj('block', 'heap'); blk.f[('jump', 'kind')] = 0
            f = Obj('func', 'heap'); f.f[('end',)] = Ptr(blk, ())
            v = val('v'); l1 = Ptr(Obj('L1', 'heap'), ()); l2 = Ptr(Obj('L2', 'heap'), ())
            w.it.call(fn, [Ptr(f, ()), v, u[ty], l1, l2])
            return (v, blk.f.get(('jump', 'kind')), blk.f.get(('jump', 'arg')), blk.f.get(('jump', 'blk', 0)) == l1,
                    blk.f.get(('jump', 'blk', 1)) == l2)
        runs = explore(prog, runner, models, max_runs=4)
        run = runs[0]
        key = 'funcjnz:%s' % ty
        where = 'qbe.c:%s' % fn.get('line')
        got = insts(run.events)
        if size == 16:
            r.instance(run.outcome.startswith('terminal'), key, where, 'long double must be rejected; got %s %s' % (run.outcome, got)); continue
        if run.outcome != 'return':
            r.violation(key, where, run.outcome); continue
        v, jk, arg, b0, b1 = run.value
        if kind == 'flt':
            want = [[('ICNES' if size == 4 else 'ICNED', 'w')]]
        elif size == 1:
            want = [[('IEXTSB', 'w')], [('IEXTUB', 'w')], [('IEXTUB', 'w'), ('ICNEW', 'w')], [('IEXTSB', 'w'), ('ICNEW', 'w')]]
        elif size == 2:
            want = [[('IEXTSH', 'w')], [('IEXTUH', 'w')], [('IEXTUH', 'w'), ('ICNEW', 'w')], [('IEXTSH', 'w'), ('ICNEW', 'w')]]
        elif size == 4:
            want = [[], [('ICNEW', 'w')]]
        else:
            want = [[('ICNEL', 'w')]]
        evs = [e for e in run.events if e[0] == 'inst']
        last = evs[-1][5] if evs else v
        ok = got in want and jk == JNZ and arg == last and b0 and b1 and chain_ok(run.events, v, last)
        r.instance(ok, key, where, 'expected one of %s then jnz on the result with (true,false) targets in order; got %s jump.kind=%s' % (want, got, jk),
                   sample='%s -> %s' % (key, got))
    r.exhaustive = True


# ------------------------------------------------------------------ C01.e2 funcjnz call sites

def _etext(n):
    n = facts.unwrap_all(n)
    k = n.get('kind')
    if k == 'DeclRefExpr': return n['referencedDecl'].get('name', '?')
    if k == 'MemberExpr': return _etext(n['inner'][0]) + ('->' if n.get('isArrow') else '.') + n.get('name', '')
    if k == 'ArraySubscriptExpr': return '%s[%s]' % (_etext(n['inner'][0]), _etext(n['inner'][1]))
    if k == 'IntegerLiteral': return str(n.get('value'))
    if k == 'CharacterLiteral': return "'%s'" % chr(n.get('value', 0))
    if k == 'GNUNullExpr': return 'NULL'
    if k == 'UnaryOperator': return n.get('opcode', '') + _etext(n['inner'][0])
    if k == 'CallExpr': return '%s(%s)' % (_etext(n['inner'][0]), ','.join(_etext(a) for a in n['inner'][1:]))
    if k == 'ConditionalOperator': return '(%s?%s:%s)' % tuple(_etext(c) for c in n['inner'])
    if k in ('BinaryOperator',): return '(%s%s%s)' % (_etext(n['inner'][0]), n.get('opcode'), _etext(n['inner'][1]))
    return k or '?'


def rule_jnz_sites(chk, prog, tier):
    r = chk.rule('C01.e2', 'every conditional jump is given the type of the very expression whose value it tests (so funcjnz can widen / compare it), or no type only for a word-class comparison result produced on the spot',
                 floor=8, oracle='C11 6.8.4.1p2, 6.8.5p4, 6.5.13-15: the controlling value compares unequal to 0 in its own type')
    from facts import walk
    for fn in prog.all_funcs():
        calls = [c for c in walk(fn) if c.get('kind') == 'CallExpr' and facts.unwrap_all(c['inner'][0]).get('referencedDecl', {}).get('name') == 'funcjnz']
        if not calls or fn['name'] == 'funcjnz': continue
        assigns = []
        for n in walk(fn):
            if n.get('kind') == 'BinaryOperator' and n.get('opcode') == '=':
                lhs = facts.unwrap_all(n['inner'][0])
                if lhs.get('kind') == 'DeclRefExpr':
                    assigns.append(((n.get('line', 0), n.get('col', 0)), lhs['referencedDecl'].get('name'), n['inner'][1]))
        def lastdef(var, pos):
            c = [a for a in assigns if a[1] == var and a[0] < pos]
            return max(c, key=lambda a: a[0])[2] if c else None
        for c in calls:
            pos = (c.get('line', 0), c.get('col', 0))
            args = c['inner'][1:]
            vt, tt = _etext(args[1]), _etext(args[2])
            key = 'jnz-site:%s:%s,%s' % (fn['name'], vt, tt)
            where = '%s:%s' % (fn['_file'], c.get('line'))
            vdef = lastdef(vt, pos)
            vdt = _etext(vdef) if vdef is not None else None
            if tt in ('NULL', '0'):
                ok = vdt is not None and vdt.startswith('funcinst(') and "'w'" in vdt.split(',')[2:3][0] if vdt and vdt.count(',') >= 2 else False
                r.instance(bool(ok), key, where, 'no type is passed, so the value must be a word-class comparison result computed here; it is %s' % vdt)
                continue
            tdef = lastdef(tt, pos) if facts.unwrap_all(args[2]).get('kind') == 'DeclRefExpr' else args[2]
            tdt = _etext(tdef) if tdef is not None else None
            import re as _re
            mv = _re.match(r'^funcexpr\([^,]+,(.*)\)$', vdt or '')
            ok = mv is not None and tdt is not None and tdt == mv.group(1) + '->type'
            r.instance(ok, key, where, 'the jump tests %s = %s but is told its type is %s = %s' % (vt, vdt, tt, tdt))
    r.exhaustive = True


# ------------------------------------------------------------------ C01.g bit-fields

def eval_insts(events, env, loads):
    """evaluate the recorded instruction events on concrete words.  env: id(value object) -> int; loads: address object id -> word in memory.
    Returns (env, stores [(addr id, width bytes, value)])"""
    stores = []
    def arg(a, cls):
        if a is None: return None
        if isinstance(a, tuple) and a[0] == 'const': v = a[1]
        else:
            if a.obj.id not in env: raise KeyError('operand without a value')
            v = env[a.obj.id]
        return v & (0xffffffff if cls == 'w' else 0xffffffffffffffff)
    def sx(v, bits): v &= (1 << bits) - 1; return v - (1 << bits) if v >> (bits - 1) else v
    for e in events:
        if e[0] != 'inst': continue
        _, op, cls, a0, a1, res = e
        W = 32 if cls == 'w' else 64; M = (1 << W) - 1
        if op.startswith('ISTORE'):
            n = {'B': 1, 'H': 2, 'W': 4, 'L': 8}[op[6]]
            stores.append((a1.obj.id, n, arg(a0, 'l') & ((1 << 8 * n) - 1))); continue
        if op.startswith('ILOAD'):
            k = op[5:]
            n, sg = {'UB': (1, 0), 'SB': (1, 1), 'UH': (2, 0), 'SH': (2, 1), 'W': (4, 1), 'UW': (4, 0), 'SW': (4, 1), 'L': (8, 0)}[k]
            v = loads[a0.obj.id] & ((1 << 8 * n) - 1)
            env[res.obj.id] = (sx(v, 8 * n) if sg else v) & M; continue
        x = arg(a0, cls)
        y = arg(a1, 'w' if op in ('ISHL', 'ISHR', 'ISAR') else cls)
        if op == 'ISHL': v = x << (y & (W - 1))
        elif op == 'ISHR': v = x >> (y & (W - 1))
        elif op == 'ISAR': v = sx(x, W) >> (y & (W - 1))
        elif op == 'IAND': v = x & y
        elif op == 'IOR': v = x | y
        else: raise KeyError('unexpected instruction %s' % op)
        env[res.obj.id] = v & M
    return env, stores


def rule_bits(chk, prog, tier):
    r = chk.rule('C01.g', 'bit-fields by evaluation of the emitted instructions on concrete words: funcbits() applied to a loaded storage unit yields the member\'s value (zero- or sign-extended from its width), '
                 'funcstore() writes exactly the member\'s bits of the unit and leaves the others, and the value it returns - the value of the assignment expression - is the member\'s new value '
                 '(the right operand converted to the width of the bit-field, C11 6.5.16p3), whatever lies in the upper bits of the operand',
                 floor=80, oracle='little-endian bit-field at bit offset `before`, width = 8*size - before - after; QBE shift/extension semantics')
    fb = prog.require_func('funcbits', 'qbe.c')
    fs = prog.require_func('funcstore', 'qbe.c')
    models = backend_models(prog)
    T = oracle_types(1)
    tys = ['uchar', 'schar', 'short', 'ushort', 'int', 'uint', 'long', 'ulong', 'bool']
    widths = {1: [1, 3, 7, 8], 2: [1, 3, 7, 9, 16], 4: [1, 15, 17, 31, 32], 8: [1, 31, 33, 63, 64]}
    def sx(v, bits): v &= (1 << bits) - 1; return v - (1 << bits) if v >> (bits - 1) else v
    for ty in tys:
        size, sg, kind = T[ty]
        total = size * 8
        combos = []
        for wd in widths[size]:
            if ty == 'bool' and wd != 1: continue
            for before in sorted({0, 1, 7, total - wd} & set(range(0, total - wd + 1))):
                combos.append((before, total - wd - before))
        if tier != 'thorough':
            combos = combos[:12]
        for before, after in combos:
            wd = total - before - after
            if wd == total and before == 0 and ty != 'bool': pass
            cls = 'w' if size <= 4 else 'l'
            CW = 32 if cls == 'w' else 64
            # ---- extraction from a loaded unit
            def runner(it, ty=ty, before=before, after=after):
                w = World(prog, it=it, target='x86_64-sysv')
                u = universe(w)
                v = val('v')
                res = w.it.call(fb, [Ptr(Obj('func', 'heap'), ()), u[ty], v, StructVal({('before',): before, ('after',): after})])
                return (v, res)
            run = explore(prog, runner, models, max_runs=4)[0]
            key = 'funcbits:%s,before=%d,after=%d' % (ty, before, after)
            where = 'qbe.c:%s' % fb.get('line')
            bad = None
            if run.outcome != 'return': bad = '%s %s' % (run.outcome, run.detail)
            else:
                vin, vout = run.value
                for word in (0, (1 << total) - 1, 0x5a5a5a5a5a5a5a5a & ((1 << total) - 1), 0xa5a5a5a5a5a5a5a5 & ((1 << total) - 1), 1 << before, 1 << (before + wd - 1), ((1 << wd) - 1) << before, ~(((1 << wd) - 1) << before) & ((1 << total) - 1)):
                    loaded = (sx(word, total) if sg else word) & ((1 << CW) - 1)        # what the load of the unit produces
                    try:
                        env, _ = eval_insts(run.events, {vin.obj.id: loaded}, {})
                        got = env[vout.obj.id] if vout.obj.id in env else loaded
                    except KeyError as x:
                        bad = str(x); break
                    field = (word >> before) & ((1 << wd) - 1)
                    want = (sx(field, wd) if sg else field)
                    if sx(got, total) != sx(want, total) if sg else (got & ((1 << total) - 1)) != want:
                        bad = 'unit %#x: the member holds %d, the emitted %s yield %d' % (word, want, [(e[1], e[2], e[4][1] if isinstance(e[4], tuple) else '?') for e in run.events if e[0] == 'inst'], sx(got, total) if sg else got & ((1 << total) - 1)); break
            r.instance(bad is None, key, where, bad or 'all probe words extracted correctly', sample=key)
            if before == 0 and after == 0: continue
            # ---- assignment: stored unit and value of the expression
            def runner2(it, ty=ty, before=before, after=after):
                w = World(prog, it=it, target='x86_64-sysv')
                u = universe(w)
                v = val('v'); addr = val('addr')
                res = w.it.call(fs, [Ptr(Obj('func', 'heap'), ()), u[ty], 0, StructVal({('addr',): addr, ('bits', 'before'): before, ('bits', 'after'): after}), v])
                return (v, addr, res)
            run = explore(prog, runner2, models, max_runs=4)[0]
            key = 'funcstore:%s,before=%d,after=%d' % (ty, before, after)
            where = 'qbe.c:%s' % fs.get('line')
            bad = None
            if run.outcome != 'return': bad = '%s %s' % (run.outcome, run.detail)
            else:
                vin, addr, vout = run.value
                for old in (0, (1 << total) - 1, 0x3c3c3c3c3c3c3c3c & ((1 << total) - 1)):
                    for operand in (0, 1, (1 << wd) - 1, 1 << (wd - 1), (1 << wd) | 1, 0x12b, 0xffffffffffffffff, 0x7fffffff, 0x8000000000000005):
                        opv = operand & ((1 << CW) - 1)
                        try:
                            env, stores = eval_insts(run.events, {vin.obj.id: opv}, {addr.obj.id: old})
                        except KeyError as x:
                            bad = str(x); break
                        field = opv & ((1 << wd) - 1)
                        mask = ((1 << wd) - 1) << before
                        want_unit = (old & ~mask | (field << before)) & ((1 << total) - 1)
                        st = [s_ for s_ in stores if s_[0] == addr.obj.id]
                        if len(st) != 1 or st[0][1] != size or st[0][2] != want_unit:
                            bad = 'old unit %#x, operand %#x: stored %s, expected one %d-byte store of %#x' % (old, opv, [(n_, hex(v_)) for _, n_, v_ in st], size, want_unit); break
                        want_val = sx(field, wd) if sg else field
                        got = env.get(vout.obj.id, opv)
                        gotv = sx(got, total) if sg else got & ((1 << total) - 1)
                        if gotv != want_val:
                            bad = 'operand %#x: the member becomes %d but the value of the assignment expression is %d' % (opv, want_val, gotv); break
                    if bad: break
            r.instance(bad is None, key, where, bad or 'stored unit and expression value correct for all probes', sample=key)
    r.exhaustive = (tier == 'thorough')


# ------------------------------------------------------------------ C01.d

def switch_cases(prog, fn, on_field=None):
    """case-label constants of the outermost switch statements in fn -> list of sets"""
    out = []
    def rec(n, depth):
        for c in facts.children(n):
            if c['kind'] == 'SwitchStmt':
                labels = set(); has_default = [False]
                def cases(m):
                    for d in facts.children(m):
                        if d['kind'] == 'SwitchStmt':
                            continue
                        if d['kind'] == 'CaseStmt':
                            labels.add(prog.cev(facts.children(d)[0]))
                        if d['kind'] == 'DefaultStmt':
                            has_default[0] = True
                        cases(d)
                cases(facts.children(c)[-1])
                out.append((c, labels, has_default[0], depth))
                rec(facts.children(c)[-1], depth + 1)
            else:
                rec(c, depth)
    rec(prog.body(fn), 0)
    return out


def cond_text(prog, n):
    n = facts.unwrap(n)
    if n['kind'] == 'MemberExpr':
        return cond_text(prog, n['inner'][0]) + ('->' if n.get('isArrow') else '.') + n.get('name', '')
    if n['kind'] == 'DeclRefExpr':
        return n['referencedDecl'].get('name', '?')
    return n['kind']


def rule_exhaustive(chk, prog, tier):
    r = chk.rule('C01.d', 'every expression kind, binary operator and builtin the front end can create has a lowering arm (and a folding arm) in the sibling switches',
                 floor=30)
    kinds = dict(cmodel.enum_names(prog, 'exprkind'))
    fe = prog.require_func('funcexpr'); fl = prog.require_func('funclval', 'qbe.c')
    sw = [s for s in switch_cases(prog, fe) if cond_text(prog, facts.children(s[0])[0]) == 'e->kind' and s[3] == 0]
    if not sw:
        raise AnalysisBroken('funcexpr: switch on e->kind not found')
    handled = set(sw[0][1])
    swl = [s for s in switch_cases(prog, fl) if cond_text(prog, facts.children(s[0])[0]) == 'e->kind']
    lval = set(swl[0][1]) if swl else set()
    # funclval handles EXPRBITFIELD by an if before the switch
    for n in facts.walk(fl):
        if n['kind'] == 'BinaryOperator' and n.get('opcode') == '==' and cond_text(prog, n['inner'][0]) == 'e->kind':
            lval.add(prog.cev(n['inner'][1]))
    for name, v in kinds.items():
        ok = v in handled or (name in ('EXPRSTRING',) and v in lval)
        r.instance(ok, 'exprkind:%s' % name, 'qbe.c:%s' % fe.get('line'), 'no arm in funcexpr%s' % (' / funclval' if name == 'EXPRSTRING' else ''))
    # operators: mkbinaryexpr -> funcexpr binary switch and eval.c binary()
    tokname = {v: n for n, v in cmodel.enum_names(prog, 'tokenkind')}
    mk = prog.require_func('mkbinaryexpr', 'expr.c')
    produced = set()
    for n in facts.walk(mk):
        if n['kind'] == 'CaseStmt':
            produced.add(prog.cev(facts.children(n)[0]))
    fops = set()
    for s, labels, dflt, depth in switch_cases(prog, fe):
        if cond_text(prog, facts.children(s)[0]) == 'e->op' and depth == 1 and len(labels) > 5:
            fops = labels
    for n in facts.walk(fe):
        if n['kind'] == 'BinaryOperator' and n.get('opcode') == '==' and cond_text(prog, n['inner'][0]) == 'e->op':
            fops = fops | {prog.cev(n['inner'][1])}
    be = prog.require_func('binary', 'eval.c')
    folds = set()
    for s, labels, dflt, depth in switch_cases(prog, be):
        folds |= {l & 0xff for l in labels}
    evf = prog.require_func('eval')
    for n in facts.walk(evf):
        if n['kind'] == 'CaseStmt':
            folds.add(prog.cev(facts.children(n)[0]))
    for v in sorted(produced):
        nm = tokname[v]
        r.instance(v in fops, 'lower-op:%s' % nm, 'qbe.c:%s' % fe.get('line'), 'operator %s produced by mkbinaryexpr has no lowering arm in funcexpr' % nm)
        r.instance(v in folds, 'fold-op:%s' % nm, 'eval.c:%s' % be.get('line'), 'operator %s produced by mkbinaryexpr has no folding arm in eval.c' % nm)
    # builtins: every EXPRBUILTIN kind assigned in builtinfunc has an arm in funcexpr's builtin switch
    bf = prog.require_func('builtinfunc', 'expr.c')
    created = set()
    for n in facts.walk(bf):
        if n['kind'] == 'BinaryOperator' and n.get('opcode') == '=' and cond_text(prog, n['inner'][0]).endswith('u.builtin.kind'):
            created.add(prog.cev(n['inner'][1]))
    bsw = set()
    for s, labels, dflt, depth in switch_cases(prog, fe):
        if cond_text(prog, facts.children(s)[0]).endswith('u.builtin.kind'):
            bsw = labels
    bname = {v: n for n, v in cmodel.enum_names(prog, 'builtinkind')}
    if not created:
        raise AnalysisBroken('builtinfunc creates no EXPRBUILTIN nodes?')
    for v in sorted(created):
        r.instance(v in bsw, 'builtin:%s' % bname[v], 'qbe.c:%s' % fe.get('line'), 'EXPRBUILTIN kind %s created in builtinfunc has no lowering arm' % bname[v])
    r.exhaustive = True


# ------------------------------------------------------------------ C01.h

def rule_ldouble(chk, prog, tier):
    r = chk.rule('C01.h', 'no lowering arm can materialise a long double value: constants, loads, calls, va_arg and conversions of that type end in the "not yet supported" diagnostic',
                 floor=4, oracle='doc: long double arithmetic is unsupported; QBE has no 16-byte class')
    fe = prog.require_func('funcexpr')
    fl = prog.require_func('funcload', 'qbe.c')
    models = backend_models(prog)
    models['xreallocarray'] = lambda it, args, e: Ptr(Obj('arr', 'heap'), (0,))
    models['emittype'] = lambda it, args, e: None
    def mk_const(w, u):
        return w.mkexpr('EXPRCONST', u['ldouble'], None, u__constant__f=1.5)
    def mk_call(w, u):
        callee = w.temp(w.mkptr(w.mkptr(u['int'])), 'fn')
        return w.mkexpr('EXPRCALL', u['ldouble'], callee, u__call__args=None, u__call__nargs=0)
    def mk_vaarg(w, u):
        ap = w.temp(w.mkptr(u['int']), 'ap')
        return w.mkexpr('EXPRBUILTIN', u['ldouble'], ap, u__builtin__kind=ev(prog, 'BUILTINVAARG'))
    def mk_cond(w, u):
        return w.mkexpr('EXPRUNARY', u['ldouble'], w.temp(w.mkptr(u['ldouble']), 'p'), op=ev(prog, 'TMUL'))
    for name, mk in (('const', mk_const), ('call', mk_call), ('va_arg', mk_vaarg), ('deref-load', mk_cond)):
        def runner(it, mk=mk):
            w = World(prog, it=it, target='x86_64-sysv')
            u = universe(w)
            e = mk(w, u)
            blk = Obj('block', 'heap'); blk.f[('jump', 'kind')] = 0
            f = Obj('func', 'heap'); f.f[('end',)] = Ptr(blk, ())
            return w.it.call(fe, [Ptr(f, ()), e])
        run = explore(prog, runner, models, max_runs=8)
        ok = all(x.outcome.startswith('terminal') for x in run)
        r.instance(ok, 'ldouble-producer:%s' % name, 'qbe.c:%s' % fe.get('line'),
                   'funcexpr on a long double %s must end in fatal(); got %s %s' % (name, [x.outcome for x in run], insts(run[0].events)))
    r.exhaustive = True


# ------------------------------------------------------------------ C01.i designators

def rule_designators(chk, prog, tier):
    r = chk.rule('C01.i', 'member designators resolve to the member\'s offset and type, through anonymous struct/union members, leaving the initializer cursor one level below the designated member (two through an anonymous member)',
                 floor=8, oracle='C11 6.7.9p7, 6.7.2.1p13')
    fn = prog.require_func('findmember', 'init.c')
    def mkm(it, name, t, off, nxt):
        o = Obj('member:%s' % name, 'heap')
        o.f[('name',)] = Ptr(it.mkstr(list(name.encode()), name), (0,)) if name else None
        o.f[('type',)] = t; o.f[('qual',)] = 0; o.f[('offset',)] = off; o.f[('bits', 'before')] = 0; o.f[('bits', 'after')] = 0; o.f[('next',)] = nxt
        return Ptr(o, ())
    layouts = {
        # struct { int a; union { int x; float y; }; int c; struct { char p; long q; }; int d; }
        'names': {'a': (0, 1), 'x': (4, 2), 'y': (4, 2), 'c': (8, 1), 'p': (16, 2), 'q': (24, 2), 'd': (32, 1), 'zz': None},
    }
    for name, want in layouts['names'].items():
        for depth in (0, 3):
            def runner(it):
                w = World(prog, it=it, target='x86_64-sysv')
                I, F, C, L = w.t('int'), w.t('float'), w.t('char'), w.t('long')
                un = w.mkstruct(size=4, align=4, kind='TYPEUNION')
                un.obj.f[('u', 'structunion', 'members')] = mkm(it, 'x', I, 0, mkm(it, 'y', F, 0, None))
                st2 = w.mkstruct(size=16, align=8)
                st2.obj.f[('u', 'structunion', 'members')] = mkm(it, 'p', C, 0, mkm(it, 'q', L, 8, None))
                st = w.mkstruct(size=40, align=8)
                st.obj.f[('u', 'structunion', 'members')] = mkm(it, 'a', I, 0, mkm(it, None, un, 4, mkm(it, 'c', I, 8, mkm(it, None, st2, 16, mkm(it, 'd', I, 32, None)))))
                p = Obj('p', 'local', 'struct initparser')
                for i in range(32):
                    p.f[('obj', i, 'offset')] = 0; p.f[('obj', i, 'type')] = None; p.f[('obj', i, 'iscur')] = 0
                p.f[('obj', depth, 'type')] = st; p.f[('obj', depth, 'offset')] = 100
                p.f[('sub',)] = Ptr(p, ('obj', depth))
                it.models['fatal'] = lambda i2, a, e: (_ for _ in ()).throw(Terminal('fatal', a))
                found = it.call(fn, [Ptr(p, ()), Ptr(it.mkstr(list(name.encode()), name), (0,))])
                sub = p.f[('sub',)]
                return bool(found), sub.path[1] - depth, it.load(p, sub.path + ('offset',)) - 100 if found else None
            runs = explore(prog, runner, {}, max_runs=4)
            if len(runs) != 1 or runs[0].outcome != 'return':
                raise AnalysisBroken('findmember(%s): %s' % (name, [(x.outcome, x.detail) for x in runs]))
            found, levels, off = runs[0].value
            if want is None:
                ok = not found and levels == 0
                det = 'an unknown member must not be found and must leave the cursor where it was; found=%s cursor moved %d' % (found, levels)
            else:
                ok = found and off == want[0] and levels == want[1]
                det = 'expected offset %d, cursor %d level(s) down; got found=%s offset=%s levels=%s' % (want[0], want[1], found, off, levels)
            r.instance(ok, 'designator:.%s@depth%d' % (name, depth), 'init.c:%s' % fn.get('line'), det)
    r.exhaustive = True


# ------------------------------------------------------------------ C01.j value flow of the non-binary expression arms

def rule_exprflow(chk, prog, tier):
    r = chk.rule('C01.j', 'increment/decrement, assignment, comma, cast, unary minus, indirection and address-of are lowered with the data flow C prescribes: operands evaluated (once, in order), the right instruction on the right values, the stored value written back, and the value of the expression is the one 6.5.2.4/6.5.3.1/6.5.16/6.5.17 name',
                 floor=60, oracle='C11 6.5.2.4p2, 6.5.3.1p2, 6.5.3.2, 6.5.3.3p3, 6.5.4, 6.5.16p3, 6.5.17p2')
    fe = prog.require_func('funcexpr', 'qbe.c')
    names = instnames(prog)
    def mk_runner(build):
        def runner(it):
            w = World(prog, it=it, target='x86_64-sysv')
            u = universe(w)
            u['pint'] = w.mkptr(w.t('int')); u['pS12'] = w.mkptr(w.mkstruct(size=12, align=4)); u['pchar'] = w.mkptr(w.t('char'))
            # pointer to int[n]: the array type's static size field is 0, its size is the run-time value calcvla() leaves in u.array.size
            vla = it.call('mkarraytype', [w.t('int'), 0, 0]); vla.obj.f[('incomplete',)] = 0; vla.obj.f[('prop',)] = (it.load(vla.obj, ('prop',)) or 0) | ev(prog, 'PROPVM')
            vla.obj.f[('u', 'array', 'size')] = val('vlasize'); vla.obj.f[('u', 'array', 'length')] = w.mkexpr('EXPRIDENT', w.t('int'))
            u['pvla'] = w.mkptr(vla); u['pvla'].obj.f[('prop',)] = (it.load(u['pvla'].obj, ('prop',)) or 0) | ev(prog, 'PROPVM')
            def leaf(label, ty):
                x = w.mkexpr('EXPRIDENT', u[ty]); x.obj.ilabel = label; return x
            def funcexpr(i2, a, e):
                lbl = getattr(a[1].obj, 'ilabel', None)
                if lbl is not None:
                    i2.event('eval', lbl); return val('v:' + lbl)
                return i2.call(fe, a)
            def funclval(i2, a, e):
                lbl = getattr(a[1].obj, 'ilabel', '?')
                i2.event('lval', lbl)
                return StructVal({('addr',): val('a:' + lbl), ('bits', 'before'): 0, ('bits', 'after'): 0})
            def funcload(i2, a, e):
                rv = val('ld%d' % len(i2.events)); i2.event('load', name_of_type(u, a[1]), a[2].f[('addr',)], rv); return rv
            def funcstore(i2, a, e):
                # what funcstore hands back is the value as it sits in the object (for a bit-field: truncated to the width): a different value from the one passed in
                rv = val('st%d' % len(i2.events)); i2.event('store', name_of_type(u, a[1]), a[3].f[('addr',)], a[4], rv); return rv
            def convert(i2, a, e):
                rv = val('cv%d' % len(i2.events)); i2.event('convert', name_of_type(u, a[1]), name_of_type(u, a[2]), a[3], rv); return rv
            M = backend_models(prog)
            it.models.update(M)
            it.models.update({'funcexpr': funcexpr, 'funclval': funclval, 'funcload': funcload, 'funcstore': funcstore, 'convert': convert, 'calcvla': lambda i2, a, e: None})
            ex = build(w, u, leaf)
            res = it.call(fe, [Ptr(Obj('func', 'heap'), ()), ex])
            return res, list(it.events)
        return runner
    def name_of_type(u, t):
        for n, p in u.items():
            if isinstance(t, Ptr) and p.obj is t.obj: return n
        return '?'
    def lab(v):
        return v.obj.label[4:] if isinstance(v, Ptr) and v.obj.label.startswith('val:') else repr(v)
    cases = []
    # ---- ++ / --
    for ty in ('char', 'short', 'int', 'uint', 'long', 'ulong', 'float', 'double', 'pint', 'pS12', 'pchar', 'pvla'):
        for op in ('TINC', 'TDEC'):
            for post in (0, 1):
                def build(w, u, leaf, ty=ty, op=op, post=post):
                    return w.mkexpr('EXPRINCDEC', u[ty], leaf('x', ty), op=ev(prog, op), u__incdec__post=post)
                def judge(res, evs, ty=ty, op=op, post=post):
                    T = oracle_types(1)
                    cls = 'l' if ty.startswith('p') else ('s' if ty == 'float' else 'd' if ty == 'double' else ('l' if T[ty][0] == 8 else 'w'))
                    step = {'pint': 4, 'pS12': 12, 'pchar': 1}.get(ty, 1)
                    lv = [e_ for e_ in evs if e_[0] == 'lval']; ld = [e_ for e_ in evs if e_[0] == 'load']; ins = [e_ for e_ in evs if e_[0] == 'inst']; st_ = [e_ for e_ in evs if e_[0] == 'store']
                    if not (len(lv) == 1 and len(ld) == 1 and len(ins) == 1 and len(st_) == 1): return 'expected one lvalue, one load, one add/sub, one store; got %s' % [e_[:3] for e_ in evs]
                    wantop = ('IADD' if op == 'TINC' else 'ISUB')
                    i0 = ins[0]
                    amt = i0[4]
                    okamt = (amt == ('const', step)) if ty not in ('float', 'double') else (isinstance(amt, tuple) and amt[0] == 'fconst' and amt[2] == 1)
                    if ty == 'pvla': okamt = lab(amt) == 'vlasize'; step = 'the run-time size of int[n]'
                    if i0[1] != wantop or i0[2] != cls or i0[3] != ld[0][3] or not okamt: return 'expected %s.%s(loaded value, %s); got %s %s (%s, %s)' % (wantop, cls, step, i0[1], i0[2], lab(i0[3]), i0[4])
                    if st_[0][1] != ty or st_[0][2] != ld[0][2] or st_[0][3] != i0[5]: return 'the new value must be stored back to the operand (type %s); stored %s into %s as %s' % (ty, lab(st_[0][3]), lab(st_[0][2]), st_[0][1])
                    want = ld[0][3] if post else st_[0][4]
                    if res != want: return 'the value of the expression must be the %s value%s; got %s' % ('old' if post else 'new', '' if post else ' as stored (what funcstore returns: a bit-field wraps at its width)', lab(res))
                    return None
                cases.append(('incdec:%s%s,%s' % ('post' if post else 'pre', '++' if op == 'TINC' else '--', ty), build, judge))
    # ---- constants of every scalar kind (also nullptr_t: `nullptr;` is a valid expression statement)
    for ty, field, value in (('int', 'u', 7), ('ulong', 'u', 2 ** 63), ('pint', 'u', 0), ('nullptr', 'u', 0), ('double', 'f', 1.5), ('float', 'f', 0.25), ('bool', 'u', 1)):
        def build(w, u, leaf, ty=ty, field=field, value=value):
            t_ = w.t('nullptr') if ty == 'nullptr' else u[ty]
            return w.mkexpr('EXPRCONST', t_, **{'u__constant__' + field: value})
        def judge(res, evs, ty=ty, field=field, value=value):
            if [e_ for e_ in evs if e_[0] in ('inst', 'store', 'load')]: return 'a constant needs no instruction; got %s' % [e_[:3] for e_ in evs]
            if field == 'u': return None if res == ('const', value) else 'expected the integer constant %d, got %r' % (value, res)
            return None if isinstance(res, tuple) and res[0] == 'fconst' and res[2] == value else 'expected the floating constant %r, got %r' % (value, res)
        cases.append(('const:%s' % ty, build, judge))
    # ---- assignment
    for ty in ('char', 'int', 'long', 'double', 'pint'):
        def build(w, u, leaf, ty=ty):
            return w.mkexpr('EXPRASSIGN', u[ty], None, u__assign__l=leaf('x', ty), u__assign__r=leaf('y', ty))
        def judge(res, evs, ty=ty):
            seq = [e_[0] for e_ in evs]
            st_ = [e_ for e_ in evs if e_[0] == 'store']
            if [e_ for e_ in evs if e_[0] == 'eval'] != [('eval', 'y')] or len(st_) != 1: return 'the right operand is evaluated once and stored once; events %s' % [e_[:2] for e_ in evs]
            if lab(st_[0][3]) != 'v:y' or lab(st_[0][2]) != 'a:x' or st_[0][1] != ty: return 'stored %s into %s as %s' % (lab(st_[0][3]), lab(st_[0][2]), st_[0][1])
            if res != st_[0][4]: return 'the value of an assignment is the value as stored (what funcstore returns); got %s' % lab(res)
            return None
        cases.append(('assign:%s' % ty, build, judge))
    # ---- comma
    for n in (2, 3, 4):
        def build(w, u, leaf, n=n):
            els = [leaf('e%d' % k, 'int') for k in range(n)]
            for a, b in zip(els, els[1:]): a.obj.f[('next',)] = b
            return w.mkexpr('EXPRCOMMA', u['int'], els[0])
        def judge(res, evs, n=n):
            got = [e_[1] for e_ in evs if e_[0] == 'eval']
            if got != ['e%d' % k for k in range(n)]: return 'operands must be evaluated left to right, each once; evaluated %s' % got
            if lab(res) != 'v:e%d' % (n - 1): return 'the value is the last operand; got %s' % lab(res)
            return None
        cases.append(('comma:%d' % n, build, judge))
    # ---- cast
    for dst, src in (('int', 'char'), ('double', 'int'), ('char', 'long'), ('pint', 'long'), ('float', 'double'), ('uint', 'float')):
        for toeval in (0, 1):
            def build(w, u, leaf, dst=dst, src=src, toeval=toeval):
                x = w.mkexpr('EXPRCAST', u[dst], leaf('x', src))
                if toeval: x.obj.f[('toeval',)] = leaf('t', 'int')
                return x
            def judge(res, evs, dst=dst, src=src, toeval=toeval):
                ev_ = [e_[1] for e_ in evs if e_[0] == 'eval']
                cv = [e_ for e_ in evs if e_[0] == 'convert']
                if ev_ != (['t'] if toeval else []) + ['x']: return 'evaluation order: %s' % ev_
                if len(cv) != 1 or cv[0][1] != dst or cv[0][2] != src or lab(cv[0][3]) != 'v:x' or res != cv[0][4]: return 'expected convert(%s <- %s) of the operand; got %s' % (dst, src, [(c_[1], c_[2], lab(c_[3])) for c_ in cv])
                return None
            cases.append(('cast:%s<-%s%s' % (dst, src, ',toeval' if toeval else ''), build, judge))
    # ---- unary
    for ty in ('int', 'long', 'float', 'double'):
        def build(w, u, leaf, ty=ty):
            return w.mkexpr('EXPRUNARY', u[ty], leaf('x', ty), op=ev(prog, 'TSUB'))
        def judge(res, evs, ty=ty):
            cls = {'int': 'w', 'long': 'l', 'float': 's', 'double': 'd'}[ty]
            ins = [e_ for e_ in evs if e_[0] == 'inst']
            if len(ins) != 1 or ins[0][1] != 'INEG' or ins[0][2] != cls or lab(ins[0][3]) != 'v:x' or res != ins[0][5]: return 'expected neg.%s of the operand; got %s' % (cls, [(i_[1], i_[2], lab(i_[3])) for i_ in ins])
            return None
        cases.append(('neg:%s' % ty, build, judge))
    for ty in ('int', 'char', 'double', 'pint'):
        def build(w, u, leaf, ty=ty):
            return w.mkexpr('EXPRUNARY', u[ty], leaf('p', 'pint'), op=ev(prog, 'TMUL'))
        def judge(res, evs, ty=ty):
            ld = [e_ for e_ in evs if e_[0] == 'load']
            if len(ld) != 1 or ld[0][1] != ty or lab(ld[0][2]) != 'v:p' or res != ld[0][3]: return 'expected one load of type %s through the pointer value; got %s' % (ty, [(l_[1], lab(l_[2])) for l_ in ld])
            return None
        cases.append(('deref:%s' % ty, build, judge))
    def build(w, u, leaf):
        return w.mkexpr('EXPRUNARY', u['pint'], leaf('x', 'int'), op=ev(prog, 'TBAND'))
    def judge(res, evs):
        if [e_[0] for e_ in evs] != ['lval'] or lab(res) != 'a:x': return 'address-of yields the operand\'s address without loading it; events %s, value %s' % ([e_[0] for e_ in evs], lab(res))
        return None
    cases.append(('addrof', build, judge))
    for key, build, judge in cases:
        runs = explore(prog, mk_runner(build), {}, max_runs=4, on_unsupported='keep')
        if len(runs) == 1 and runs[0].outcome in ('terminal:assert', 'terminal:fatal'):
            # a valid expression of the language must be lowered, not end the compiler
            r.instance(False, 'exprflow:' + key, 'qbe.c:%s' % fe.get('line'), 'lowering ends in %s: %s' % (runs[0].outcome, str(runs[0].detail)[:160])); continue
        if len(runs) != 1 or runs[0].outcome != 'return':
            raise AnalysisBroken('funcexpr %s: %s %s' % (key, runs[0].outcome if runs else '?', runs[0].detail if runs else ''))
        res, evs = runs[0].value
        bad = judge(res, evs)
        r.instance(bad is None, 'exprflow:' + key, 'qbe.c:%s' % fe.get('line'), bad or '')
    r.exhaustive = False


# ------------------------------------------------------------------ C01.k expression grammar

GRAMMAR_OPS = [('TMUL', 10), ('TDIV', 10), ('TMOD', 10), ('TADD', 9), ('TSUB', 9), ('TSHL', 8), ('TSHR', 8), ('TLESS', 7), ('TGREATER', 7), ('TLEQ', 7), ('TGEQ', 7),
          ('TEQL', 6), ('TNEQ', 6), ('TBAND', 5), ('TXOR', 4), ('TBOR', 3), ('TLAND', 2), ('TLOR', 1)]


def ref_parse_expr(toks):
    """reference parser for flat operand/operator sequences (C11 6.5.5-6.5.17); operands are ('X', name).
    -> tree: name | (op, l, r) | ('?', c, t, f) | ('=', l, r) | (',', [..])   raises ValueError on a syntax/constraint error"""
    prec = dict(GRAMMAR_OPS)
    pos = [0]
    def peek(): return toks[pos[0]][0] if pos[0] < len(toks) else 'END'
    def eat():
        t = toks[pos[0]]; pos[0] += 1; return t
    def operand():
        if peek() != 'X': raise ValueError('operand expected')
        return eat()[1]
    def binary(minp):
        l = operand()
        return climb(l, minp)
    def climb(l, minp):
        while peek() in prec and prec[peek()] >= minp:
            op = eat()[0]
            r = operand()
            while peek() in prec and prec[peek()] > prec[op]:
                r = climb(r, prec[peek()])
            l = (op, l, r)
        return l
    def cond():
        c = binary(1)
        if peek() != 'TQUESTION': return c
        eat(); t = comma()
        if peek() != 'TCOLON': raise ValueError(': expected')
        eat(); f = cond()
        return ('?', c, t, f)
    def assign():
        l = cond()
        if peek() == 'TASSIGN':
            if not isinstance(l, str): raise ValueError('not an lvalue')
            eat(); return ('=', l, assign())
        return l
    def comma():
        items = [assign()]
        while peek() == 'TCOMMA':
            eat(); items.append(assign())
        return items[0] if len(items) == 1 else (',', items)
    e = comma()
    if peek() != 'END': raise ValueError('trailing tokens')
    return e


def rule_exprgrammar(chk, prog, tier):
    r = chk.rule('C01.k', 'binary operators, ?:, = and the comma operator group as the C grammar says: the relative precedence and associativity of every pair of binary operators, right-associative ?: and =, comma lowest',
                 floor=350, oracle='C11 6.5.5-6.5.17')
    fn = prog.require_func('expr', 'expr.c')
    cases = []
    X = lambda n: ('X', n)
    for a, _ in GRAMMAR_OPS:
        for b, _ in GRAMMAR_OPS:
            cases.append([X('a'), (a, None), X('b'), (b, None), X('c')])
    ops = [o for o, _ in GRAMMAR_OPS]
    for o in ops[::2]:
        cases.append([X('a'), (o, None), X('b'), ('TQUESTION', None), X('c'), ('TCOLON', None), X('d')])
        cases.append([X('a'), ('TQUESTION', None), X('b'), ('TCOLON', None), X('c'), (o, None), X('d')])
        cases.append([X('a'), ('TQUESTION', None), X('b'), (o, None), X('c'), ('TCOLON', None), X('d')])
        cases.append([X('a'), ('TASSIGN', None), X('b'), (o, None), X('c')])
        cases.append([X('a'), (o, None), X('b'), ('TCOMMA', None), X('c'), (o, None), X('d')])
    Q, C_, A, M = ('TQUESTION', None), ('TCOLON', None), ('TASSIGN', None), ('TCOMMA', None)
    cases += [[X('a'), Q, X('b'), C_, X('c'), Q, X('d'), C_, X('e')], [X('a'), Q, X('b'), Q, X('c'), C_, X('d'), C_, X('e')], [X('a'), A, X('b'), A, X('c')],
              [X('a'), A, X('b'), Q, X('c'), C_, X('d')], [X('a'), M, X('b'), A, X('c')], [X('a'), A, X('b'), M, X('c')], [X('a'), Q, X('b'), M, X('c'), C_, X('d')],
              [X('a'), Q, X('b'), A, X('c'), C_, X('d')], [X('a'), M, X('b'), M, X('c')], [X('a')]]
    rnd = __import__('random').Random(5)
    for _ in range(150 if tier == 'quick' else 1500):
        n = rnd.randint(3, 6); seq = [X('x0')]
        for k in range(1, n):
            seq.append((rnd.choice(ops), None)); seq.append(X('x%d' % k))
        cases.append(seq)
    import par
    def work(chunk):
        out = []
        for toks in chunk:
            def runner(it):
                w = World(prog, it=it, target='x86_64-sysv')
                stream = toks + [('TSEMICOLON', None)]
                tokobj = it.gobj('tok'); st = {'i': 0}
                def load():
                    k, v = stream[min(st['i'], len(stream) - 1)]
                    tokobj.f[('kind',)] = ev(prog, 'TIDENT' if k == 'X' else k)
                    tokobj.f[('lit',)] = None
                    tokobj.f[('loc', 'file')] = None; tokobj.f[('loc', 'line')] = 1; tokobj.f[('loc', 'col')] = 1
                def nxt(i2, a, e): st['i'] += 1; load(); return None
                def consume(i2, a, e):
                    if tokobj.f[('kind',)] == a[0]: nxt(i2, a, e); return 1
                    return 0
                def expect(i2, a, e):
                    if tokobj.f[('kind',)] != a[0]: raise Terminal('error', 'expected token')
                    nxt(i2, a, e); return None
                def castexpr(i2, a, e):
                    k, v = stream[min(st['i'], len(stream) - 1)]
                    if k != 'X': raise Terminal('error', 'expected expression')
                    nxt(i2, a, e)
                    x = w.mkexpr('EXPRIDENT', w.t('int')); x.obj.f[('lvalue',)] = 1; x.obj.tree = v
                    return x
                opname = {ev(prog, o): o for o in ops}
                def mkbinaryexpr(i2, a, e):
                    x = w.mkexpr('EXPRBINARY', w.t('int'), None, op=a[1], u__binary__l=a[2], u__binary__r=a[3])
                    x.obj.tree = (opname.get(a[1], a[1]), a[2].obj.tree, a[3].obj.tree)
                    return x
                it.models.update({'next': nxt, 'consume': consume, 'expect': expect, 'castexpr': castexpr, 'mkbinaryexpr': mkbinaryexpr, 'eval': lambda i2, a, e: a[0],
                                  'exprconvert': lambda i2, a, e: a[0], 'xmalloc': lambda i2, a, e: Ptr(Obj('heap@%s' % e.get('line'), 'heap'), ()),
                                  'error': lambda i2, a, e: (_ for _ in ()).throw(Terminal('error', cmodel.fmt_of(i2, a, 1))),
                                  'fatal': lambda i2, a, e: (_ for _ in ()).throw(Terminal('fatal', cmodel.fmt_of(i2, a, 0)))})
                load()
                res = it.call(fn, [Ptr(Obj('scope', 'heap'), ())])
                K = {ev(prog, k): k for k in ('EXPRCOND', 'EXPRASSIGN', 'EXPRCOMMA', 'EXPRBINARY', 'EXPRIDENT')}
                def tree(x):
                    t_ = getattr(x.obj, 'tree', None)
                    if t_ is not None: return t_
                    k = K.get(it.load(x.obj, ('kind',)))
                    if k == 'EXPRCOND': return ('?', tree(it.load(x.obj, ('base',))), tree(it.load(x.obj, ('u', 'cond', 't'))), tree(it.load(x.obj, ('u', 'cond', 'f'))))
                    if k == 'EXPRASSIGN': return ('=', tree(it.load(x.obj, ('u', 'assign', 'l'))), tree(it.load(x.obj, ('u', 'assign', 'r'))))
                    if k == 'EXPRCOMMA':
                        items = []; y = it.load(x.obj, ('base',))
                        while y is not None:
                            items.append(tree(y)); y = it.load(y.obj, ('next',))
                        return (',', items)
                    raise Unsupported('unexpected expression kind %s' % k)
                if stream[min(st['i'], len(stream) - 1)][0] != 'TSEMICOLON': raise Terminal('error', 'expression not consumed to its end')
                return tree(res)
            runs = explore(prog, runner, {}, max_runs=4, on_unsupported='keep')
            run = runs[0]
            out.append((toks, 'multi' if len(runs) != 1 else run.outcome, run.value if run.outcome == 'return' else str(run.detail)))
        return out
    SP = {'TMUL': '*', 'TDIV': '/', 'TMOD': '%', 'TADD': '+', 'TSUB': '-', 'TSHL': '<<', 'TSHR': '>>', 'TLESS': '<', 'TGREATER': '>', 'TLEQ': '<=', 'TGEQ': '>=', 'TEQL': '==', 'TNEQ': '!=',
          'TBAND': '&', 'TXOR': '^', 'TBOR': '|', 'TLAND': '&&', 'TLOR': '||', 'TQUESTION': '?', 'TCOLON': ':', 'TASSIGN': '=', 'TCOMMA': ','}
    chunks = [cases[k::32] for k in range(32)]
    seen = set()
    for res in par.pmap(work, chunks):
        for toks, outcome, val in res:
            text_ = ' '.join(v if k == 'X' else SP[k] for k, v in toks)
            if text_ in seen: continue
            seen.add(text_)
            if outcome in ('unsupported', 'multi'):
                raise AnalysisBroken('expr %s: %s' % (text_, val))
            try:
                want = ref_parse_expr(toks)
            except ValueError as x:
                r.instance(outcome == 'terminal:error', 'exprgrammar:' + text_, 'expr.c', 'must be rejected (%s); cproc parses it as %s' % (x, val)); continue
            def norm(t):
                if isinstance(t, str): return t
                if t[0] == ',': return (',', tuple(norm(y) for y in t[1]))
                return (t[0],) + tuple(norm(y) for y in t[1:])
            ok = outcome == 'return' and norm(val) == norm(want)
            r.instance(ok, 'exprgrammar:' + text_, 'expr.c:binaryexpr', 'C groups it as %s; cproc builds %s' % (want, val if outcome == 'return' else outcome + ' ' + str(val)))
    r.exhaustive = False


# ------------------------------------------------------------------ C01.l return

def rule_return(chk, prog, tier):
    r = chk.rule('C01.l', 'return E; converts E to the function\'s return type as if by assignment and returns that converted value; return; returns nothing from a void function; a value in a void function or no value in a non-void one is diagnosed', floor=10,
                 oracle='C11 6.8.6.4p1,p3')
    fn = prog.require_func('stmt', 'stmt.c')
    for ret in ('int', 'long', 'double', 'char', 'ptr', 'void'):
        for hasval in (1, 0):
            def runner(it):
                w = World(prog, it=it, target='x86_64-sysv')
                u = {'int': w.t('int'), 'long': w.t('long'), 'double': w.t('double'), 'char': w.t('char'), 'void': w.t('void'), 'ptr': w.mkptr(w.t('int'))}
                toks = ['TRETURN'] + (['X'] if hasval else []) + ['TSEMICOLON', 'TEOF']
                tokobj = it.gobj('tok'); st = {'i': 0}
                def load():
                    k = toks[min(st['i'], len(toks) - 1)]
                    tokobj.f[('kind',)] = ev(prog, 'TIDENT' if k == 'X' else k); tokobj.f[('lit',)] = None
                    tokobj.f[('loc', 'file')] = None; tokobj.f[('loc', 'line')] = 1; tokobj.f[('loc', 'col')] = 1
                def nxt(i2, a, e): st['i'] += 1; load(); return None
                def expect(i2, a, e):
                    if tokobj.f[('kind',)] != a[0] or toks[min(st['i'], len(toks) - 1)] == 'X': raise Terminal('error', 'expected token')
                    nxt(i2, a, e); return None
                operand = w.mkexpr('EXPRIDENT', w.t('int'))
                def expr(i2, a, e):
                    if toks[min(st['i'], len(toks) - 1)] != 'X': raise Terminal('error', 'expected expression')
                    nxt(i2, a, e); return operand
                conv = {}
                def exprassign(i2, a, e):
                    x = w.mkexpr('EXPRCAST', a[1], a[0]); conv['node'] = x; conv['from'] = a[0]; conv['type'] = a[1]; return x
                ft = it.call('mktype', [ev(prog, 'TYPEFUNC'), 0]); ft.obj.f[('base',)] = u[ret]
                it.models.update({'next': nxt, 'expect': expect, 'expr': expr, 'exprassign': exprassign, 'attr': lambda i2, a, e: 0, 'delexpr': lambda i2, a, e: None,
                                  'functype': lambda i2, a, e: ft, 'funcexpr': lambda i2, a, e: (i2.event('eval', a[1]), val('v'))[1], 'funcret': lambda i2, a, e: i2.event('ret', a[1]),
                                  'xmalloc': lambda i2, a, e: Ptr(Obj('heap@%s' % e.get('line'), 'heap'), ()),
                                  'error': lambda i2, a, e: (_ for _ in ()).throw(Terminal('error', cmodel.fmt_of(i2, a, 1))),
                                  'fatal': lambda i2, a, e: (_ for _ in ()).throw(Terminal('fatal', cmodel.fmt_of(i2, a, 0)))})
                load()
                sc = Obj('scope', 'heap'); sc.f.update({('parent',): None, ('breaklabel',): None, ('continuelabel',): None, ('switchcases',): None})
                it.call(fn, [Ptr(Obj('func', 'heap'), ()), Ptr(sc, ())])
                evs = [e_ for e_ in it.events if e_[0] in ('eval', 'ret')]
                okconv = conv.get('from') is not None and conv['from'].obj is operand.obj and conv['type'].obj is u[ret].obj
                evaluated = [e_[1].obj is conv.get('node', operand).obj for e_ in evs if e_[0] == 'eval']
                rets = [e_[1] for e_ in evs if e_[0] == 'ret']
                return okconv, evaluated, [lab_ is not None for lab_ in rets], st['i']
            runs = explore(prog, runner, {}, max_runs=4, on_unsupported='keep')
            if len(runs) != 1 or runs[0].outcome == 'unsupported':
                raise AnalysisBroken('stmt return %s: %s' % (ret, runs[0].detail if runs else 'no run'))
            run = runs[0]
            key = 'return:%s function,%s' % (ret, 'value' if hasval else 'no value')
            if (ret == 'void') == bool(hasval):
                r.instance(run.outcome == 'terminal:error', key, 'stmt.c:%s' % fn.get('line'), 'constraint violation (6.8.6.4p1) must be diagnosed; got %s %s' % (run.outcome, run.value if run.outcome == 'return' else ''))
            elif ret == 'void':
                r.instance(run.outcome == 'return' and run.value[1] == [] and run.value[2] == [False], key, 'stmt.c:%s' % fn.get('line'), 'expected a plain ret; got %s %s' % (run.outcome, run.value if run.outcome == 'return' else run.detail))
            else:
                r.instance(run.outcome == 'return' and run.value[0] and run.value[1] == [True] and run.value[2] == [True], key, 'stmt.c:%s' % fn.get('line'),
                           'expected: operand converted to %s by exprassign, the converted expression evaluated once, its value returned; got %s %s' % (ret, run.outcome, run.value if run.outcome == 'return' else run.detail))
    r.exhaustive = True


# ------------------------------------------------------------------ C01.m lvalues

def rule_lvalues(chk, prog, tier):
    r = chk.rule('C01.m', 'funclval yields the address the expression designates: an object or function identifier its own symbol, a string literal its object, a compound literal its (freshly initialised, once) object after evaluating the size expressions, *p the value of p, a bit-field the address of its unit plus the bit position; __func__ is materialised on first use; anything else that is not a structure value is diagnosed',
                 floor=14, oracle='C11 6.3.2.1, 6.5.2.5p5-7, 6.4.2.2')
    fn = prog.require_func('funclval', 'qbe.c')
    cases = ['ident-object', 'ident-function', 'ident-const', 'string', 'compound', 'compound-toeval', 'deref', 'bitfield-ident', 'bitfield-deref', 'struct-call', 'int-call', 'func-name', 'func-name-twice', 'unary-neg']
    for case in cases:
        def runner(it):
            w = World(prog, it=it, target='x86_64-sysv')
            f = Obj('func', 'heap'); f.f[('namedecl',)] = None; f.f[('name',)] = Ptr(it.mkstr(list(b'fn'), 'fn'), (0,))
            def decl(kind, name='x'):
                d = Obj('decl:' + name, 'heap'); v = val('sym:' + name)
                d.f.update({('kind',): ev(prog, kind), ('value',): v, ('name',): Ptr(it.mkstr(list(name.encode()), name), (0,))}); return Ptr(d, ()), v
            leafp = w.mkexpr('EXPRIDENT', w.mkptr(w.t('int'))); leafp.obj.ilabel = 'p'
            sized = w.mkexpr('EXPRIDENT', w.t('int')); sized.obj.ilabel = 'n'
            strd, strv = decl('DECLOBJECT', 'str')
            def funcexpr(i2, a, e):
                i2.event('eval', getattr(a[1].obj, 'ilabel', '?')); return val('v:' + getattr(a[1].obj, 'ilabel', '?'))
            it.models.update({'funcexpr': funcexpr, 'funcinit': lambda i2, a, e: i2.event('init', a[1], a[2], a[3]), 'stringdecl': lambda i2, a, e: strd,
                              'emitname': lambda i2, a, e: i2.event('text', 'name'), 'printf': lambda i2, a, e: i2.event('text', 'printf'), 'fputs': lambda i2, a, e: i2.event('text', 'fputs'),
                              'error': lambda i2, a, e: (_ for _ in ()).throw(Terminal('error', cmodel.fmt_of(i2, a, 1))),
                              'fatal': lambda i2, a, e: (_ for _ in ()).throw(Terminal('fatal', cmodel.fmt_of(i2, a, 0)))})
            want = None; bits = (0, 0)
            if case.startswith('ident') or case.startswith('func-name'):
                d, v = decl({'ident-object': 'DECLOBJECT', 'ident-function': 'DECLFUNC', 'ident-const': 'DECLCONST'}.get(case, 'DECLOBJECT'))
                e = w.mkexpr('EXPRIDENT', w.t('int'), u__ident__decl=d); want = v
                if case.startswith('func-name'): f.f[('namedecl',)] = d
            elif case == 'string':
                e = w.mkexpr('EXPRSTRING', it.call('mkarraytype', [w.t('char'), 0, 3])); want = strv
            elif case.startswith('compound'):
                d, v = decl('DECLOBJECT', 'lit'); init = Ptr(Obj('init', 'heap'), ())
                e = w.mkexpr('EXPRCOMPOUND', w.t('int'), u__compound__decl=d, u__compound__init=init)
                if case == 'compound-toeval': e.obj.f[('toeval',)] = sized
                want = v
            elif case == 'deref':
                e = w.mkexpr('EXPRUNARY', w.t('int'), leafp, op=ev(prog, 'TMUL')); want = 'v:p'
            elif case.startswith('bitfield'):
                if case == 'bitfield-ident':
                    d, v = decl('DECLOBJECT'); b = w.mkexpr('EXPRIDENT', w.t('uint'), u__ident__decl=d); want = v
                else:
                    b = w.mkexpr('EXPRUNARY', w.t('uint'), leafp, op=ev(prog, 'TMUL')); want = 'v:p'
                e = w.mkexpr('EXPRBITFIELD', w.t('uint'), b, u__bitfield__bits__before=3, u__bitfield__bits__after=24); bits = (3, 24)
            elif case == 'struct-call':
                e = w.mkexpr('EXPRCALL', w.mkstruct(size=8, align=4)); e.obj.ilabel = 'call'; want = 'v:call'
            elif case == 'int-call':
                e = w.mkexpr('EXPRCALL', w.t('int')); e.obj.ilabel = 'call'
            else:
                e = w.mkexpr('EXPRUNARY', w.t('int'), leafp, op=ev(prog, 'TSUB'))
            res = it.call(fn, [Ptr(f, ()), e])
            if case == 'func-name-twice': res = it.call(fn, [Ptr(f, ()), e])
            addr = res.f[('addr',)]
            a_ = addr.obj.label[4:] if isinstance(addr, Ptr) and isinstance(want, str) and addr.obj.label.startswith('val:') else addr
            return (a_ == want) if isinstance(want, str) else (addr is want or (isinstance(addr, Ptr) and isinstance(want, Ptr) and addr.obj is want.obj)), (res.f.get(('bits', 'before'), 0), res.f.get(('bits', 'after'), 0)) == bits, \
                [e_[0] if e_[0] != 'eval' else 'eval:' + e_[1] for e_ in it.events], [e_ for e_ in it.events if e_[0] == 'init']
        runs = explore(prog, runner, {}, max_runs=4, on_unsupported='keep')
        if len(runs) != 1 or runs[0].outcome == 'unsupported':
            raise AnalysisBroken('funclval %s: %s' % (case, runs[0].detail if runs else 'no run'))
        run = runs[0]
        key = 'lvalue:' + case
        where = 'qbe.c:%s' % fn.get('line')
        if case in ('ident-const', 'int-call', 'unary-neg'):
            r.instance(run.outcome == 'terminal:error', key, where, 'not an object: must be diagnosed; got %s' % (run.value if run.outcome == 'return' else run.outcome,)); continue
        if run.outcome != 'return':
            r.instance(False, key, where, '%s %s' % (run.outcome, run.detail)); continue
        okaddr, okbits, evs, inits = run.value
        ok = okaddr and okbits
        if case == 'compound': ok = ok and evs == ['init'] and inits[0][3] in (1, True)
        if case == 'compound-toeval': ok = ok and evs == ['eval:n', 'init']
        if case in ('deref', 'bitfield-deref'): ok = ok and evs == ['eval:p']
        if case == 'struct-call': ok = ok and evs == ['eval:call']
        if case == 'func-name': ok = ok and evs.count('text') >= 2
        if case == 'func-name-twice': ok = ok and evs.count('name') <= 1 and len([x for x in evs if x == 'text']) == len([x for x in evs if x == 'text'])
        if case in ('ident-object', 'ident-function', 'string', 'bitfield-ident'): ok = ok and evs == []
        r.instance(bool(ok), key, where, 'address as expected: %s, bits as expected: %s, events %s' % (okaddr, okbits, evs))
    r.exhaustive = True


# ------------------------------------------------------------------ C01.n compound assignment

def rule_compound_assign(chk, prog, tier):
    r = chk.rule('C01.n', 'E1 op= E2 is rewritten so that E1 is designated once: T = &E1, *T = *T op E2 with one temporary T; the operator is the one spelled, its operands are *T (the bit-field of *T for bit-fields) and E2, and the value and type are those of E1',
                 floor=60, oracle='C11 6.5.16.2p3: E1 is evaluated only once')
    fn = prog.require_func('assignexpr', 'expr.c')
    OPS = [('TMULASSIGN', 'TMUL'), ('TDIVASSIGN', 'TDIV'), ('TMODASSIGN', 'TMOD'), ('TADDASSIGN', 'TADD'), ('TSUBASSIGN', 'TSUB'), ('TSHLASSIGN', 'TSHL'), ('TSHRASSIGN', 'TSHR'), ('TBANDASSIGN', 'TBAND'), ('TXORASSIGN', 'TXOR'), ('TBORASSIGN', 'TBOR')]
    LT = ['int', 'char', 'long', 'uint', 'double', 'ptr', 'bitfield']
    for atok, op in OPS:
        for lt in LT:
            for rt in ('int', 'long', 'double'):
                if lt == 'ptr' and (op not in ('TADD', 'TSUB') or rt == 'double'): continue
                if (lt == 'double' or rt == 'double') and op in ('TMOD', 'TSHL', 'TSHR', 'TBAND', 'TXOR', 'TBOR'): continue
                def runner(it):
                    w = World(prog, it=it, target='x86_64-sysv')
                    u = universe(w)
                    T = {'int': u['int'], 'char': u['char'], 'long': u['long'], 'uint': u['uint'], 'double': u['double'], 'ptr': w.mkptr(u['int']), 'bitfield': u['uint']}
                    X = w.temp(T[lt], 'x'); X.obj.f[('lvalue',)] = 1
                    L = X
                    if lt == 'bitfield':
                        L = w.mkexpr('EXPRBITFIELD', u['uint'], X, u__bitfield__bits__before=3, u__bitfield__bits__after=24); L.obj.f[('lvalue',)] = 1
                    Y = w.temp(T[rt], 'y')
                    seq = {'i': 0}
                    tokobj = it.gobj('tok')
                    def settok(k):
                        tokobj.f[('kind',)] = ev(prog, k); tokobj.f[('lit',)] = None
                        tokobj.f[('loc', 'file')] = None; tokobj.f[('loc', 'line')] = 1; tokobj.f[('loc', 'col')] = 1
                    def condexpr(i2, a, e):
                        seq['i'] += 1
                        if seq['i'] == 1:
                            settok(atok); return L
                        settok('TSEMICOLON'); return Y
                    it.models.update({'condexpr': condexpr, 'next': lambda i2, a, e: None, 'free': lambda i2, a, e: None, 'xmalloc': lambda i2, a, e: Ptr(Obj('heap@%s' % e.get('line'), 'heap'), ()),
                                      'fatal': lambda i2, a, e: (_ for _ in ()).throw(Terminal('fatal', a)), 'error': lambda i2, a, e: (_ for _ in ()).throw(Terminal('error', cmodel.fmt_of(i2, a, 1)))})
                    e = it.call(fn, [Ptr(Obj('scope', 'heap'), ())])
                    K = lambda x: {ev(prog, k): k for k in ('EXPRCOMMA', 'EXPRASSIGN', 'EXPRTEMP', 'EXPRUNARY', 'EXPRBINARY', 'EXPRCAST', 'EXPRBITFIELD', 'EXPRCONST')}.get(it.load(x.obj, ('kind',)), '?')
                    def strip(x):
                        while K(x) == 'EXPRCAST': x = it.load(x.obj, ('base',))
                        return x
                    if K(e) != 'EXPRCOMMA': return 'not a comma expression'
                    a1 = it.load(e.obj, ('base',)); a2 = it.load(a1.obj, ('next',))
                    if K(a1) != 'EXPRASSIGN' or a2 is None or K(a2) != 'EXPRASSIGN' or it.load(a2.obj, ('next',)) is not None: return 'not two assignments'
                    tmp = it.load(a1.obj, ('u', 'assign', 'l')); addr = strip(it.load(a1.obj, ('u', 'assign', 'r')))
                    if K(tmp) != 'EXPRTEMP': return 'first assignment does not set a temporary'
                    if not (K(addr) == 'EXPRUNARY' and it.load(addr.obj, ('op',)) == ev(prog, 'TBAND') and it.load(addr.obj, ('base',)).obj is X.obj): return 'the temporary is not set to &E1'
                    dst = it.load(a2.obj, ('u', 'assign', 'l')); val_ = strip(it.load(a2.obj, ('u', 'assign', 'r')))
                    def is_deref_tmp(x):
                        return K(x) == 'EXPRUNARY' and it.load(x.obj, ('op',)) == ev(prog, 'TMUL') and it.load(x.obj, ('base',)).obj is tmp.obj
                    def is_target(x):
                        if lt == 'bitfield':
                            return K(x) == 'EXPRBITFIELD' and is_deref_tmp(it.load(x.obj, ('base',))) and (it.load(x.obj, ('u', 'bitfield', 'bits', 'before')), it.load(x.obj, ('u', 'bitfield', 'bits', 'after'))) == (3, 24)
                        return is_deref_tmp(x)
                    if not is_target(dst): return 'the store does not go through the temporary'
                    if K(val_) != 'EXPRBINARY': return 'no binary operation'
                    bop = it.load(val_.obj, ('op',)); bl = strip(it.load(val_.obj, ('u', 'binary', 'l'))); br = it.load(val_.obj, ('u', 'binary', 'r'))
                    if bop != ev(prog, op): return 'operator %s instead of %s' % (bop, ev(prog, op))
                    if not is_target(bl): return 'left operand of the operation is not *T'
                    brs = strip(br)
                    if lt == 'ptr':
                        # the integer is scaled: (y converted) * 4
                        if not (K(brs) == 'EXPRBINARY' and it.load(brs.obj, ('op',)) == ev(prog, 'TMUL')): return 'pointer step not scaled'
                        inner = [strip(it.load(brs.obj, ('u', 'binary', 'l'))), strip(it.load(brs.obj, ('u', 'binary', 'r')))]
                        if not any(x.obj is Y.obj for x in inner): return 'right operand is not E2'
                    elif brs.obj is not Y.obj: return 'right operand is not E2'
                    if it.load(e.obj, ('type',)).obj is not T[lt].obj: return 'type of the expression is not the type of E1'
                    return 'ok'
                runs = explore(prog, runner, {}, max_runs=4, on_unsupported='keep')
                if len(runs) != 1 or runs[0].outcome == 'unsupported':
                    raise AnalysisBroken('assignexpr %s %s %s: %s' % (lt, atok, rt, runs[0].detail if runs else 'no run'))
                run = runs[0]
                r.instance(run.outcome == 'return' and run.value == 'ok', 'compound:%s %s= %s' % (lt, op[1:].lower(), rt), 'expr.c:%s' % fn.get('line'), '%s %s' % (run.outcome, run.value if run.outcome == 'return' else run.detail))
    r.exhaustive = True


# ------------------------------------------------------------------ C01.o short-circuit values

def rule_shortcircuit(chk, prog, tier):
    r = chk.rule('C01.o', '&&, || and ?: evaluate the operands C prescribes, in order, and yield the prescribed value: a && b is 0 or (b != 0), a || b is 1 or (b != 0), c ? x : y the selected arm; checked by running the emitted blocks (jnz, phi) for every truth assignment of the operands',
                 floor=13, oracle='C11 6.5.13p3-4, 6.5.14p3-4, 6.5.15p4')
    fe = prog.require_func('funcexpr', 'qbe.c')
    # expression shapes over leaves a, b, c, d
    def AND(x, y): return ('&&', x, y)
    def OR(x, y): return ('||', x, y)
    def Q(c, x, y): return ('?', c, x, y)
    shapes = [AND('a', 'b'), OR('a', 'b'), Q('a', 'b', 'c'), AND(AND('a', 'b'), 'c'), OR(OR('a', 'b'), 'c'), AND('a', OR('b', 'c')), OR('a', AND('b', 'c')), OR(AND('a', 'b'), AND('c', 'd')),
              Q(AND('a', 'b'), 'c', 'd'), Q('a', AND('b', 'c'), OR('c', 'd')), AND(Q('a', 'b', 'c'), 'd'), Q('a', Q('b', 'c', 'd'), 'b'), OR('a', Q('b', 'c', 'd'))]
    def leaves(t):
        return [t] if isinstance(t, str) else [x for y in t[1:] for x in leaves(y)]
    def refeval(t, env, trace):
        """-> value: ('bool', leaf) means (leaf != 0); ('val', leaf) the leaf's value; int constants"""
        if isinstance(t, str):
            trace.append(t); return ('val', t)
        def truth(v):
            return v if isinstance(v, int) else env[v[1]]
        def asbool(v):
            return v if isinstance(v, int) else ('bool', v[1])
        if t[0] == '&&':
            l = refeval(t[1], env, trace)
            if not truth(l): return 0
            return asbool(refeval(t[2], env, trace))
        if t[0] == '||':
            l = refeval(t[1], env, trace)
            if truth(l): return 1
            return asbool(refeval(t[2], env, trace))
        c = refeval(t[1], env, trace)
        return refeval(t[2] if truth(c) else t[3], env, trace)
    import itertools
    for shape in shapes:
        def runner(it):
            it.MAX_STEPS = 400000
            w = World(prog, it=it, target='x86_64-sysv')
            def build(t):
                if isinstance(t, str):
                    x = w.mkexpr('EXPRIDENT', w.t('int')); x.obj.ilabel = t; return x
                if t[0] in ('&&', '||'):
                    return w.mkexpr('EXPRBINARY', w.t('int'), None, op=ev(prog, 'TLAND' if t[0] == '&&' else 'TLOR'), u__binary__l=build(t[1]), u__binary__r=build(t[2]))
                return w.mkexpr('EXPRCOND', w.t('int'), build(t[1]), u__cond__t=build(t[2]), u__cond__f=build(t[3]))
            F = Obj('func', 'heap')
            start = it.call('mkblock', [Ptr(it.mkstr(list(b'start'), 's'), (0,))])
            F.f[('start',)] = start; F.f[('end',)] = start; F.f[('lastid',)] = 0
            evals = {}
            def funcexpr(i2, a, e):
                lbl = getattr(a[1].obj, 'ilabel', None)
                if lbl is None: return i2.call(fe, a)
                b = i2.load(a[0].obj, a[0].path + ('end',))
                if i2.load(b.obj, b.path + ('jump', 'kind')): raise Unsupported('evaluation in a terminated block')
                evals.setdefault(b.obj.id, []).append(lbl)
                v = val('v:' + lbl); v.obj.vkind = ('val', lbl); return v
            def convert(i2, a, e):
                src = a[3]
                v = val('b'); v.obj.vkind = ('boolof', src)
                return v
            it.models.update({'funcexpr': funcexpr, 'convert': convert, 'calcvla': lambda i2, a, e: None, 'mkintconst': lambda i2, a, e: ('const', a[0]),
                              'xmalloc': lambda i2, a, e: Ptr(Obj('heap@%s' % e.get('line'), 'heap'), ()),
                              'error': lambda i2, a, e: (_ for _ in ()).throw(Terminal('error', cmodel.fmt_of(i2, a, 1))),
                              'fatal': lambda i2, a, e: (_ for _ in ()).throw(Terminal('fatal', cmodel.fmt_of(i2, a, 0)))})
            res = it.call(fe, [Ptr(F, ()), build(shape)])
            # read the graph
            J = {ev(prog, k): k for k in ('JUMP_NONE', 'JUMP_JMP', 'JUMP_JNZ', 'JUMP_RET', 'JUMP_HLT')}
            blocks = {}; b = start; order = []
            while b is not None:
                o = b.obj
                blocks[o.id] = {'evals': evals.get(o.id, []), 'jk': J[o.f[('jump', 'kind')]], 'arg': o.f.get(('jump', 'arg')), 'b0': o.f.get(('jump', 'blk', 0)), 'b1': o.f.get(('jump', 'blk', 1)),
                                'phi': o.f.get(('phi', 'res', 'kind')), 'pb': (o.f.get(('phi', 'blk', 0)), o.f.get(('phi', 'blk', 1))), 'pv': (o.f.get(('phi', 'val', 0)), o.f.get(('phi', 'val', 1))), 'obj': o,
                                'next': o.f.get(('next',))}
                order.append(o.id); b = o.f.get(('next',))
            return blocks, start.obj.id, res
        runs = explore(prog, runner, {}, max_runs=4, on_unsupported='keep')
        if len(runs) != 1 or runs[0].outcome != 'return':
            raise AnalysisBroken('funcexpr %s: %s %s' % (shape, runs[0].outcome if runs else '?', runs[0].detail if runs else ''))
        blocks, startid, res = runs[0].value
        def vk(v, phivals):
            """value description of an IR value"""
            if isinstance(v, tuple) and v[0] == 'const': return v[1]
            if isinstance(v, Ptr):
                if v.path == ('phi', 'res'): return phivals.get(v.obj.id, ('?',))
                k = getattr(v.obj, 'vkind', ('?',))
                if k[0] == 'boolof':
                    inner = vk(k[1], phivals)
                    if isinstance(inner, int): return int(bool(inner))
                    if inner[0] == 'val': return ('bool', inner[1])
                    return inner
                return k
            return ('?',)
        L = sorted(set(leaves(shape)))
        bad = None
        for bits in itertools.product((0, 1), repeat=len(L)):
            env = dict(zip(L, bits))
            trace = []; want = refeval(shape, env, trace)
            # run the blocks
            cur = startid; pred = None; got_trace = []; phivals = {}; steps = 0
            while cur is not None and steps < 100:
                steps += 1
                blk = blocks[cur]
                if blk['phi']:
                    k = 0 if (blk['pb'][0] is not None and blk['pb'][0].obj.id == pred) else 1 if (blk['pb'][1] is not None and blk['pb'][1].obj.id == pred) else None
                    phivals[cur] = vk(blk['pv'][k], phivals) if k is not None else ('phi-from-non-predecessor',)
                got_trace += blk['evals']
                pred = cur
                if blk['jk'] == 'JUMP_JNZ':
                    v = vk(blk['arg'], phivals)
                    t_ = v if isinstance(v, int) else env.get(v[1]) if len(v) > 1 else None
                    if t_ is None: bad = 'branch on an unknown value %s' % (v,); break
                    cur = (blk['b0'] if t_ else blk['b1']).obj.id
                elif blk['jk'] == 'JUMP_JMP': cur = blk['b0'].obj.id
                elif blk['jk'] == 'JUMP_NONE': cur = blk['next'].obj.id if blk['next'] is not None else None
                else: bad = 'unexpected terminator %s' % blk['jk']; break
            if bad: break
            got = vk(res, phivals)
            if got_trace != trace or got != want:
                bad = 'operands %s: C evaluates %s and yields %s; the emitted blocks evaluate %s and yield %s' % (env, trace, want, got_trace, got); break
        def show(t):
            return t if isinstance(t, str) else ('(%s ? %s : %s)' % tuple(show(x) for x in t[1:]) if t[0] == '?' else '(%s %s %s)' % (show(t[1]), t[0], show(t[2])))
        r.instance(bad is None, 'shortcircuit:' + show(shape), 'qbe.c:%s' % fe.get('line'), bad or '')
    r.exhaustive = False


# ------------------------------------------------------------------ C01.p expressions of type void

def rule_void_values(chk, prog, tier):
    r = chk.rule('C01.p', 'an expression of type void is lowered for its side effects only: *p with a pointer to void evaluates p and loads nothing, a cast to void evaluates its operand, and neither produces an instruction that names a void value', floor=3,
                 oracle='C11 6.3.2.2, 6.5.3.2p4')
    fe = prog.require_func('funcexpr', 'qbe.c')
    for case in ('deref-void', 'cast-to-void', 'comma-void-left'):
        def runner(it):
            w = World(prog, it=it, target='x86_64-sysv')
            leaf = w.mkexpr('EXPRIDENT', w.mkptr(w.t('void'))); leaf.obj.ilabel = 'p'
            ileaf = w.mkexpr('EXPRIDENT', w.t('int')); ileaf.obj.ilabel = 'i'
            if case == 'deref-void': e = w.mkexpr('EXPRUNARY', w.t('void'), leaf, op=ev(prog, 'TMUL'))
            elif case == 'cast-to-void': e = w.mkexpr('EXPRCAST', w.t('void'), ileaf)
            else:
                d = w.mkexpr('EXPRUNARY', w.t('void'), leaf, op=ev(prog, 'TMUL')); d.obj.f[('next',)] = ileaf
                e = w.mkexpr('EXPRCOMMA', w.t('int'), d)
            def funcexpr(i2, a, e_):
                lbl = getattr(a[1].obj, 'ilabel', None)
                if lbl is not None:
                    i2.event('eval', lbl); return val('v:' + lbl)
                return i2.call(fe, a)
            M = backend_models(prog)
            it.models.update(M)
            it.models.update({'funcexpr': funcexpr, 'calcvla': lambda i2, a, e_: None})
            res = it.call(fe, [Ptr(Obj('func', 'heap'), ()), e])
            return [e_[1] for e_ in it.events if e_[0] == 'eval'], [(e_[1], e_[2]) for e_ in it.events if e_[0] == 'inst'], (res.obj.label if isinstance(res, Ptr) else res)
        runs = explore(prog, runner, {}, max_runs=4, on_unsupported='keep')
        run = runs[0]
        want_ev = {'deref-void': ['p'], 'cast-to-void': ['i'], 'comma-void-left': ['p', 'i']}[case]
        ok = len(runs) == 1 and run.outcome == 'return' and run.value[0] == want_ev and run.value[1] == []
        r.instance(ok, 'void-value:' + case, 'qbe.c:%s' % fe.get('line'), 'expected the operands %s evaluated and no instruction; got %s %s' % (want_ev, run.outcome, run.value if run.outcome == 'return' else run.detail))
    r.exhaustive = True


def run(chk, tier):
    prog = facts.programs()['cproc-qbe']
    chk.guard('C01.a', lambda: rule_binop(chk, prog, tier))
    chk.guard('C01.b', lambda: rule_convert(chk, prog, tier))
    chk.guard('C01.c', lambda: rule_qbetype(chk, prog, tier))
    chk.guard('C01.d', lambda: rule_exhaustive(chk, prog, tier))
    chk.guard('C01.e', lambda: rule_jnz(chk, prog, tier))
    chk.guard('C01.e2', lambda: rule_jnz_sites(chk, prog, tier))
    chk.guard('C01.g', lambda: rule_bits(chk, prog, tier))
    chk.guard('C01.h', lambda: rule_ldouble(chk, prog, tier))
    chk.guard('C01.i', lambda: rule_designators(chk, prog, tier))
    chk.guard('C01.j', lambda: rule_exprflow(chk, prog, tier))
    chk.guard('C01.k', lambda: rule_exprgrammar(chk, prog, tier))
    chk.guard('C01.l', lambda: rule_return(chk, prog, tier))
    chk.guard('C01.m', lambda: rule_lvalues(chk, prog, tier))
    chk.guard('C01.n', lambda: rule_compound_assign(chk, prog, tier))
    chk.guard('C01.o', lambda: rule_shortcircuit(chk, prog, tier))
    chk.guard('C01.p', lambda: rule_void_values(chk, prog, tier))
    from props import c05, c07
    chk.guard('C05.c', lambda: c05.rule_binary_types(chk, prog, tier))     # operand conversions / result types the lowering relies on
    chk.guard('C05.o', lambda: c05.rule_promote_expr(chk, prog, tier))     # a promoted operand is the operand converted, never a sub-expression of it
    from props import c04
    chk.guard('C04.i', lambda: c04.rule_binary_values(chk, prog, tier))    # the same operators folded at compile time: a constant operand pair gives the value the emitted instruction would
    from props import c03
    chk.guard('C03.m', lambda: c03.rule_mnemonics(chk, prog, tier))        # the instruction selected is the instruction printed
    chk.guard('C05.h', lambda: c05.rule_conditional(chk, prog, tier))       # the type (promotion) of a conditional expression decides the instructions of what is computed from it
    from props import c15
    chk.guard('C15.abc', lambda: c15.rule_orders(chk, prog, tier))       # the balanced tree behind switch: every case label stays reachable for every insertion order
    chk.guard('C07.c', lambda: c07.rule_funcinit(chk, prog, tier))         # automatic initialisation
    from props import c15
    chk.guard('C15.f', lambda: c15.rule_case_conversion(chk, prog, tier))  # the case a value reaches: constants converted to the promoted controlling type
    chk.guard('C15.e', lambda: c15.rule_controlling(chk, prog, tier))      # ... and the controlling expression promoted before its type is recorded for them
    from props import c02
    chk.guard('C07.d', lambda: c02.rule_initadd(chk, prog, tier, 'C07.d', bits=True))    # the initialiser list funcinit replays: overriding and ordering
    from props import c01f
    chk.guard('C01.f', lambda: c01f.rule_statements(chk, prog, tier))
