"""C05.j - typing of nested expressions: the whole expression front end against a reference type checker.

expr.c's parser and semantic functions (expr, assignexpr, condexpr, binaryexpr, castexpr, unaryexpr, postfixexpr,
primaryexpr, mkbinaryexpr, mkunaryexpr, mkincdecexpr, decay, exprconvert/promote, typename/declspecs/declarator for
cast type names) are interpreted on the token streams of randomly generated, well-typed expressions over a fixed set of
declared identifiers; the type (and lvalue-ness) cproc assigns to the whole expression must equal the type a reference
implementation of C11 6.5 assigns.  Only the scanner-facing primitives (next/consume/expect/peek), the symbol lookup and
eval() are modelled.
"""
import random
import facts
from facts import AnalysisBroken
from eai import Interp, Obj, Ptr, Terminal, Unsupported, StructVal, explore, UNINIT, read_cstr
import cmodel
from cmodel import World, ev
import par

RANK = {'char': 1, 'schar': 1, 'uchar': 1, 'short': 2, 'ushort': 2, 'int': 3, 'uint': 3, 'long': 4, 'ulong': 4}
SIZE = {'char': 1, 'schar': 1, 'uchar': 1, 'short': 2, 'ushort': 2, 'int': 4, 'uint': 4, 'long': 8, 'ulong': 8, 'float': 4, 'double': 8}
SIGNED = {'char': True, 'schar': True, 'uchar': False, 'short': True, 'ushort': False, 'int': True, 'uint': False, 'long': True, 'ulong': False}
FLOATS = ('float', 'double')
VARS = {'c': 'char', 'uc': 'uchar', 's': 'short', 'i': 'int', 'j': 'int', 'u': 'uint', 'l': 'long', 'ul': 'ulong', 'f': 'float', 'd': 'double',
        'p': ('ptr', 'int'), 'q': ('ptr', 'char'), 'pp': ('ptr', ('ptr', 'int')), 'a': ('arr', 'int', 3), 'v': ('struct', 'S'), 'pv': ('ptr', ('struct', 'S')), 'vp': ('ptr', 'void')}
MEMBERS = {'m': 'int', 'n': 'long', 'k': ('ptr', 'char')}
CASTS = {'int': 'int', 'long': 'long', 'double': 'double', 'char': 'char', 'unsigned': 'uint', 'unsigned char': 'uchar', 'int *': ('ptr', 'int'), 'char *': ('ptr', 'char'), 'void *': ('ptr', 'void'), 'void': 'void'}


def isint(t): return isinstance(t, str) and t in RANK
def isarith(t): return isint(t) or t in FLOATS
def isptr(t): return isinstance(t, tuple) and t[0] == 'ptr'
def isscalar(t): return isarith(t) or isptr(t)


def promote(t):
    if isint(t) and RANK[t] < 3: return 'int'
    return t


def common(a, b):
    if 'double' in (a, b): return 'double'
    if 'float' in (a, b): return 'float'
    a, b = promote(a), promote(b)
    if a == b: return a
    if SIGNED[a] == SIGNED[b]: return a if RANK[a] > RANK[b] else b
    if SIGNED[a]: a, b = b, a          # a unsigned
    if RANK[a] >= RANK[b]: return a
    if SIZE[b] > SIZE[a]: return b
    return {'long': 'ulong', 'int': 'uint'}[b]


class Bad(Exception): pass


def complete_obj(t):
    """pointer to complete object type?"""
    return isptr(t) and t[1] != 'void' and not (isinstance(t[1], tuple) and t[1][0] == 'func')


def sizeof_(t):
    if isinstance(t, str): return SIZE[t]
    if t[0] == 'ptr': return 8
    if t[0] == 'arr': return sizeof_(t[1]) * t[2]
    if t[0] == 'struct': return 24
    raise Bad()


def typeof(e):
    """reference typing: -> (type, is_lvalue); raises Bad for anything C11 6.5 forbids (the generator then retries)"""
    k = e[0]
    if k == 'var':
        t = VARS[e[1]]
        if isinstance(t, tuple) and t[0] == 'arr': return ('ptr', t[1]), False       # decays
        return t, True
    if k == 'num': return 'int', False
    if k == 'paren': return typeof(e[1])
    if k == 'un':
        op = e[1]; t, lv = typeof(e[2])
        if op in ('+', '-'):
            if not isarith(t): raise Bad()
            return promote(t), False
        if op == '~':
            if not isint(t): raise Bad()
            return promote(t), False
        if op == '!':
            if not isscalar(t): raise Bad()
            return 'int', False
        if op == '*':
            if not isptr(t) or t[1] == 'void': raise Bad()
            tt = t[1]
            if isinstance(tt, tuple) and tt[0] == 'arr': return ('ptr', tt[1]), False
            return tt, True
        if op == '&':
            if e[2][0] == 'var' and isinstance(VARS[e[2][1]], tuple) and VARS[e[2][1]][0] == 'arr':
                return ('ptr', VARS[e[2][1]]), False
            if not lv: raise Bad()
            return ('ptr', t), False
        if op in ('++', '--'):
            if not lv or not isscalar(t) or (isptr(t) and not complete_obj(t)): raise Bad()
            return t, False
        if op == 'sizeof':
            if e[2][0] == 'var' and isinstance(VARS[e[2][1]], tuple) and VARS[e[2][1]][0] == 'arr': return 'ulong', False
            if t == 'void': raise Bad()
            return 'ulong', False
    if k == 'post':
        t, lv = typeof(e[2])
        if not lv or not isscalar(t) or (isptr(t) and not complete_obj(t)): raise Bad()
        return t, False
    if k == 'cast':
        dst = CASTS[e[1]]; t, lv = typeof(e[2])
        if dst == 'void': return 'void', False
        if not isscalar(t): raise Bad()
        if (isptr(dst) and t in FLOATS) or (dst in FLOATS and isptr(t)): raise Bad()
        return dst, False
    if k == 'idx':
        a, _ = typeof(e[1]); b, _ = typeof(e[2])
        if isptr(a) and complete_obj(a) and isint(b): r = a[1]
        elif isptr(b) and complete_obj(b) and isint(a): r = b[1]
        else: raise Bad()
        if isinstance(r, tuple) and r[0] == 'arr': return ('ptr', r[1]), False
        return r, True
    if k == 'mem':
        t, lv = typeof(e[1])
        if e[2] == '->':
            if not (isptr(t) and t[1] == ('struct', 'S')): raise Bad()
            return MEMBERS[e[3]], True
        if t != ('struct', 'S'): raise Bad()
        return MEMBERS[e[3]], lv
    if k == 'bin':
        op = e[1]; a, _ = typeof(e[2]); b, _ = typeof(e[3])
        if op in ('*', '/'):
            if not (isarith(a) and isarith(b)): raise Bad()
            return common(a, b), False
        if op in ('%', '&', '^', '|'):
            if not (isint(a) and isint(b)): raise Bad()
            return common(a, b), False
        if op in ('<<', '>>'):
            if not (isint(a) and isint(b)): raise Bad()
            return promote(a), False
        if op == '+':
            if isarith(a) and isarith(b): return common(a, b), False
            if isptr(a) and complete_obj(a) and isint(b): return a, False
            if isptr(b) and complete_obj(b) and isint(a): return b, False
            raise Bad()
        if op == '-':
            if isarith(a) and isarith(b): return common(a, b), False
            if isptr(a) and complete_obj(a) and isint(b): return a, False
            if isptr(a) and isptr(b) and complete_obj(a) and a == b: return 'long', False
            raise Bad()
        if op in ('<', '>', '<=', '>='):
            if isarith(a) and isarith(b): return 'int', False
            if isptr(a) and isptr(b) and a == b: return 'int', False
            raise Bad()
        if op in ('==', '!='):
            if isarith(a) and isarith(b): return 'int', False
            if isptr(a) and isptr(b) and (a == b or 'void' in (a[1], b[1])): return 'int', False
            if isptr(a) and e[3] == ('num', 0): return 'int', False
            if isptr(b) and e[2] == ('num', 0): return 'int', False
            raise Bad()
        if op in ('&&', '||'):
            if not (isscalar(a) and isscalar(b)): raise Bad()
            return 'int', False
    if k == 'cond':
        c, _ = typeof(e[1]); a, _ = typeof(e[2]); b, _ = typeof(e[3])
        if not isscalar(c): raise Bad()
        if isarith(a) and isarith(b): return common(a, b), False
        if a == b and (a == ('struct', 'S') or a == 'void'): return a, False
        if isptr(a) and e[3] == ('num', 0): return a, False
        if isptr(b) and e[2] == ('num', 0): return b, False
        if isptr(a) and isptr(b):
            if a == b: return a, False
            if a[1] == 'void' and not (isinstance(b[1], tuple) and b[1][0] == 'func'): return a, False
            if b[1] == 'void' and not (isinstance(a[1], tuple) and a[1][0] == 'func'): return b, False
        raise Bad()
    if k == 'asg':
        op = e[1]; a, lv = typeof(e[2]); b, _ = typeof(e[3])
        if not lv or a == 'void' or (isinstance(a, tuple) and a[0] == 'arr'): raise Bad()
        if op == '=':
            if isarith(a) and isarith(b): return a, False
            if isptr(a) and (e[3] == ('num', 0) or (isptr(b) and (a == b or 'void' in (a[1], b[1])))): return a, False
            if a == ('struct', 'S') and b == a: return a, False
            raise Bad()
        bop = op[:-1]
        if bop in ('+', '-') and isptr(a):
            if not (complete_obj(a) and isint(b)): raise Bad()
            return a, False
        if not (isarith(a) and isarith(b)): raise Bad()
        typeof(('bin', bop, e[2], e[3]))        # operand constraints of the underlying operator
        return a, False
    if k == 'comma':
        typeof(e[1]); t, _ = typeof(e[2]); return t, False
    raise Bad()


BIN = ['*', '/', '%', '+', '-', '<<', '>>', '<', '>', '<=', '>=', '==', '!=', '&', '^', '|', '&&', '||']
PREC = {'*': 10, '/': 10, '%': 10, '+': 9, '-': 9, '<<': 8, '>>': 8, '<': 7, '>': 7, '<=': 7, '>=': 7, '==': 6, '!=': 6, '&': 5, '^': 4, '|': 3, '&&': 2, '||': 1}


def gen(rnd, depth):
    for _ in range(200):
        e = gen1(rnd, depth)
        try:
            typeof(e); return e
        except Bad:
            continue
    return ('var', 'i')


def gen1(rnd, depth):
    if depth <= 0 or rnd.random() < 0.15:
        return ('var', rnd.choice(list(VARS))) if rnd.random() < 0.8 else ('num', rnd.choice([0, 1, 7]))
    r = rnd.random()
    g = lambda: gen(rnd, depth - 1)
    if r < 0.38: return ('bin', rnd.choice(BIN), g(), g())
    if r < 0.52: return ('un', rnd.choice(['+', '-', '~', '!', '*', '&', '++', '--', 'sizeof']), g())
    if r < 0.57: return ('post', rnd.choice(['++', '--']), g())
    if r < 0.67: return ('cast', rnd.choice(list(CASTS)), g())
    if r < 0.74: return ('idx', g(), g())
    if r < 0.81: return ('mem', g(), rnd.choice(['.', '->']), rnd.choice(list(MEMBERS)))
    if r < 0.89: return ('cond', g(), g(), g())
    if r < 0.96: return ('asg', rnd.choice(['=', '+=', '-=', '*=', '&=', '<<=']), g(), g())
    return ('comma', g(), g())


def level(e):
    k = e[0]
    if k in ('var', 'num', 'paren', 'idx', 'mem', 'post'): return 16
    if k in ('un', 'cast'): return 15
    if k == 'bin': return PREC[e[1]]
    if k == 'cond': return 0.5
    if k == 'asg': return 0.3
    return 0


def toks(e, out):
    """token list with the parentheses the grammar needs"""
    def sub(x, minlevel):
        if level(x) < minlevel:
            out.append(('TLPAREN', None)); toks(x, out); out.append(('TRPAREN', None))
        else: toks(x, out)
    k = e[0]
    OPT = {'*': 'TMUL', '/': 'TDIV', '%': 'TMOD', '+': 'TADD', '-': 'TSUB', '<<': 'TSHL', '>>': 'TSHR', '<': 'TLESS', '>': 'TGREATER', '<=': 'TLEQ', '>=': 'TGEQ', '==': 'TEQL', '!=': 'TNEQ',
           '&': 'TBAND', '^': 'TXOR', '|': 'TBOR', '&&': 'TLAND', '||': 'TLOR', '~': 'TBNOT', '!': 'TLNOT', '++': 'TINC', '--': 'TDEC', 'sizeof': 'TSIZEOF',
           '=': 'TASSIGN', '+=': 'TADDASSIGN', '-=': 'TSUBASSIGN', '*=': 'TMULASSIGN', '&=': 'TBANDASSIGN', '<<=': 'TSHLASSIGN'}
    if k == 'var': out.append(('TIDENT', e[1]))
    elif k == 'num': out.append(('TNUMBER', str(e[1])))
    elif k == 'un':
        out.append((OPT[e[1]], None))
        if e[1] == 'sizeof' and e[2][0] != 'var':
            out.append(('TLPAREN', None)); toks(e[2], out); out.append(('TRPAREN', None))      # `sizeof (type) x` would be sizeof(type) followed by x
        else: sub(e[2], 15)
    elif k == 'post':
        sub(e[2], 16); out.append((OPT[e[1]], None))
    elif k == 'cast':
        out.append(('TLPAREN', None))
        for w_ in e[1].split():
            out.append(({'int': 'TINT', 'long': 'TLONG', 'double': 'TDOUBLE', 'char': 'TCHAR', 'unsigned': 'TUNSIGNED', 'void': 'TVOID', '*': 'TMUL'}[w_], None))
        out.append(('TRPAREN', None)); sub(e[2], 15)
    elif k == 'idx':
        sub(e[1], 16); out.append(('TLBRACK', None)); toks(e[2], out); out.append(('TRBRACK', None))
    elif k == 'mem':
        sub(e[1], 16); out.append(('TPERIOD' if e[2] == '.' else 'TARROW', None)); out.append(('TIDENT', e[3]))
    elif k == 'bin':
        sub(e[2], PREC[e[1]]); out.append((OPT[e[1]], None)); sub(e[3], PREC[e[1]] + 0.5)
    elif k == 'cond':
        sub(e[1], 1); out.append(('TQUESTION', None)); toks(e[2], out); out.append(('TCOLON', None)); sub(e[3], 0.5)
    elif k == 'asg':
        sub(e[2], 15); out.append((OPT[e[1]], None)); sub(e[3], 0.3)
    elif k == 'comma':
        sub(e[1], 0); out.append(('TCOMMA', None)); sub(e[2], 0.3)


def text(tk):
    SP = {'TLPAREN': '(', 'TRPAREN': ')', 'TLBRACK': '[', 'TRBRACK': ']', 'TPERIOD': '.', 'TARROW': '->', 'TQUESTION': '?', 'TCOLON': ':', 'TCOMMA': ',', 'TMUL': '*', 'TDIV': '/', 'TMOD': '%', 'TADD': '+', 'TSUB': '-',
          'TSHL': '<<', 'TSHR': '>>', 'TLESS': '<', 'TGREATER': '>', 'TLEQ': '<=', 'TGEQ': '>=', 'TEQL': '==', 'TNEQ': '!=', 'TBAND': '&', 'TXOR': '^', 'TBOR': '|', 'TLAND': '&&', 'TLOR': '||', 'TBNOT': '~',
          'TLNOT': '!', 'TINC': '++', 'TDEC': '--', 'TSIZEOF': 'sizeof', 'TASSIGN': '=', 'TADDASSIGN': '+=', 'TSUBASSIGN': '-=', 'TMULASSIGN': '*=', 'TBANDASSIGN': '&=', 'TSHLASSIGN': '<<=',
          'TINT': 'int', 'TLONG': 'long', 'TDOUBLE': 'double', 'TCHAR': 'char', 'TUNSIGNED': 'unsigned', 'TVOID': 'void'}
    return ' '.join(v if k in ('TIDENT', 'TNUMBER') else SP[k] for k, v in tk)


def run_expr(prog, tk):
    fn = prog.require_func('expr', 'expr.c')
    def runner(it):
        it.MAX_STEPS = 2000000
        w = World(prog, it=it, target='x86_64-sysv')
        S = w.mkstruct(size=24, align=8); S.obj.f[('incomplete',)] = 0; S.obj.f[('u', 'structunion', 'tag')] = None
        def T(t):
            if isinstance(t, str): return w.t(t)
            if t[0] == 'ptr': return w.mkptr(T(t[1]), 0)
            if t[0] == 'arr':
                a = it.call('mkarraytype', [T(t[1]), 0, t[2]])
                a.obj.f[('u', 'array', 'length')] = w.mkexpr('EXPRCONST', w.t('int'), u__constant__u=t[2]); return a
            return S
        prev = None
        for off, (mn, mt) in zip((0, 8, 16), MEMBERS.items()):
            m = Obj('member:' + mn, 'heap')
            m.f.update({('name',): Ptr(it.mkstr(list(mn.encode()), mn), (0,)), ('type',): T(mt), ('qual',): 0, ('offset',): off, ('bits', 'before'): 0, ('bits', 'after'): 0, ('bitfield',): 0, ('next',): None})
            if prev is None: S.obj.f[('u', 'structunion', 'members')] = Ptr(m, ())
            else: prev.f[('next',)] = Ptr(m, ())
            prev = m
        decls = {}
        for name, t in VARS.items():
            d = Obj('decl:' + name, 'heap')
            d.f.update({('kind',): ev(prog, 'DECLOBJECT'), ('type',): T(t), ('qual',): 0, ('name',): Ptr(it.mkstr(list(name.encode()), name), (0,)), ('value',): cmodel.val(name)})
            decls[name] = Ptr(d, ())
        stream = list(tk) + [('TSEMICOLON', None)]
        tokobj = it.gobj('tok'); st = {'i': 0}
        def load():
            k, v = stream[min(st['i'], len(stream) - 1)]
            tokobj.f[('kind',)] = ev(prog, k)
            if v is not None:
                so = it.mkstr(list(v.encode()), v); so.writable = True
                tokobj.f[('lit',)] = Ptr(so, (0,))
            else: tokobj.f[('lit',)] = None
            tokobj.f[('loc', 'file')] = None; tokobj.f[('loc', 'line')] = 1; tokobj.f[('loc', 'col')] = 1
        def nxt(i2, a, e): st['i'] += 1; load(); return None
        def consume(i2, a, e):
            if tokobj.f[('kind',)] == a[0]: nxt(i2, a, e); return 1
            return 0
        def expect(i2, a, e):
            if tokobj.f[('kind',)] != a[0]: raise Terminal('error', 'expected token')
            lit = tokobj.f[('lit',)]; nxt(i2, a, e); return lit
        def peek(i2, a, e):
            k, v = stream[min(st['i'] + 1, len(stream) - 1)]
            if ev(prog, k) == a[0]:
                st['i'] += 2; load(); return 1
            return 0
        def getdecl(i2, a, e):
            return decls.get(bytes(read_cstr(i2, a[1])).decode())
        def strtoull(i2, a, e):
            v = int(bytes(read_cstr(i2, a[0])).decode(), 0)
            if a[1] is not None:
                n = len(bytes(read_cstr(i2, a[0])))
                i2.assign(a[1].obj, a[1].path, i2.padd(a[0], n), None)
            return v
        it.models.update({'next': nxt, 'consume': consume, 'expect': expect, 'peek': peek, 'scopegetdecl': getdecl, 'scopegettag': lambda i2, a, e: None, 'strtoull': strtoull,
                          'strpbrk': lambda i2, a, e: None, 'attr': lambda i2, a, e: 0, 'gnuattr': lambda i2, a, e: 0, 'free': lambda i2, a, e: None, 'delexpr': lambda i2, a, e: None,
                          'xmalloc': lambda i2, a, e: Ptr(Obj('heap@%s' % e.get('line'), 'heap'), ()),
                          'error': lambda i2, a, e: (_ for _ in ()).throw(Terminal('error', cmodel.fmt_of(i2, a, 1))),
                          'fatal': lambda i2, a, e: (_ for _ in ()).throw(Terminal('fatal', cmodel.fmt_of(i2, a, 0)))})
        load()
        res = it.call(fn, [Ptr(Obj('scope', 'heap'), ())])
        if stream[min(st['i'], len(stream) - 1)][0] != 'TSEMICOLON':
            raise Terminal('error', 'expression not consumed to its end')
        def name(t, depth=0):
            for n in ('void', 'char', 'schar', 'uchar', 'short', 'ushort', 'int', 'uint', 'long', 'ulong', 'float', 'double'):
                if t.obj is w.t(n).obj: return n
            if t.obj is S.obj: return ('struct', 'S')
            kd = it.load(t.obj, t.path + ('kind',))
            if kd == ev(prog, 'TYPEPOINTER') and depth < 4: return ('ptr', name(it.load(t.obj, t.path + ('base',)), depth + 1))
            if kd == ev(prog, 'TYPEARRAY') and depth < 4: return ('arr', name(it.load(t.obj, t.path + ('base',)), depth + 1), it.load(t.obj, t.path + ('size',)) // 4)
            return '?'
        return name(it.load(res.obj, ('type',)))
    runs = explore(prog, runner, {}, max_runs=4, on_unsupported='keep')
    if len(runs) != 1: return 'unsupported', '%d paths' % len(runs)
    return runs[0].outcome, (runs[0].value if runs[0].outcome == 'return' else str(runs[0].detail))


def rule_exprtypes(chk, prog, tier):
    r = chk.rule('C05.j', 'every randomly generated well-typed expression (arithmetic, bitwise, shift, relational, logical, pointer arithmetic, unary, casts, subscripts, member access, ?:, assignment and compound assignment, ++/--, comma; nesting <= 4) is accepted and given the type C11 6.5 assigns',
                 floor=600, oracle='C11 6.5.1-6.5.17 (reference type checker props/c05j.py:typeof)')
    rnd = random.Random(77)
    N = 900 if tier == 'quick' else 6000
    cases = []; seen = set()
    while len(cases) < N:
        e = gen(rnd, rnd.choice([1, 2, 2, 3, 3, 4]))
        tk = []; toks(e, tk)
        tx = text(tk)
        if tx in seen or len(tk) > 60: continue
        seen.add(tx); cases.append((e, tk, tx))
    def work(chunk):
        return [(tx, typeof(e)[0]) + run_expr(prog, tk) for e, tk, tx in chunk]
    for res in par.pmap(work, [cases[k::48] for k in range(48)]):
        for tx, want, outcome, val in res:
            if outcome == 'unsupported':
                raise AnalysisBroken('expr %s: %s' % (tx, val))
            if isinstance(want, tuple) and want[0] == 'arr': want = ('ptr', want[1])
            r.instance(outcome == 'return' and val == want, 'exprtype:' + tx, 'expr.c', 'C11 type %s; cproc: %s %s' % (want, outcome, val))
    r.exhaustive = False
