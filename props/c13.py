"""C13 - tokenisation: finite artefacts extracted from scan.c / pp.c / token.c.

C13.a punctuator decision tree of scankind() (E-AI with a symbolic character) vs tokstr[] and C11 6.4.6 + maximal munch
C13.b pp-number and identifier scanners as automata (step tabulation) vs C11 6.4.8 / 6.4.2.1
C13.c keyword table: strictly sorted (bisection precondition), spelling->kind oracle, bisection verified over the
      ordering abstraction, keyword() applied to every identifier leaving next()
"""
import facts
from facts import AnalysisBroken
from eai import Interp, Obj, Ptr, Sym, SV, Terminal, Unsupported, StructVal, explore, UNINIT, read_cstr
import cmodel
from cmodel import World, ev

TECHNIQUE = 'abstract interpretation of the scanner with a symbolic input character (finite-domain splitting) -> decision tree / automaton compared with the C11 6.4 grammar; static table checks'

ALLCH = frozenset(range(256)) | {-1}

PUNCT = ['[', ']', '(', ')', '{', '}', '.', '->', '++', '--', '&', '*', '+', '-', '~', '!', '/', '%', '<<', '>>', '<', '>',
         '<=', '>=', '==', '!=', '^', '|', '&&', '||', '?', ':', '::', ';', '...', '=', '*=', '/=', '%=', '+=', '-=', '<<=',
         '>>=', '&=', '^=', '|=', ',', '#', '##']

# keyword spelling -> token kind (C11 6.4.1, C23 spellings of doc/c23.md, GNU alternates)  DESIGN A.3
KEYWORDS = {}
for w in ('auto break case char const continue default do double else enum extern float for goto if inline int long '
          'register restrict return short signed sizeof static struct switch typedef union unsigned void volatile while').split():
    KEYWORDS[w] = 'T' + w.upper()
KEYWORDS.update({
    '_Alignas': 'TALIGNAS', '_Alignof': 'TALIGNOF', '_Atomic': 'T_ATOMIC', '_Bool': 'TBOOL', '_Complex': 'T_COMPLEX',
    '_Generic': 'T_GENERIC', '_Imaginary': 'T_IMAGINARY', '_Noreturn': 'T_NORETURN', '_Static_assert': 'TSTATIC_ASSERT',
    '_Thread_local': 'TTHREAD_LOCAL',
    'alignas': 'TALIGNAS', 'alignof': 'TALIGNOF', 'bool': 'TBOOL', 'constexpr': 'TCONSTEXPR', 'false': 'TFALSE',
    'nullptr': 'TNULLPTR', 'static_assert': 'TSTATIC_ASSERT', 'thread_local': 'TTHREAD_LOCAL', 'true': 'TTRUE',
    'typeof': 'TTYPEOF', 'typeof_unqual': 'TTYPEOF_UNQUAL', '_Decimal32': 'T_DECIMAL32', '_Decimal64': 'T_DECIMAL64',
    '_Decimal128': 'T_DECIMAL128',
    '__alignof__': 'TALIGNOF', '__asm': 'T__ASM__', '__asm__': 'T__ASM__', '__attribute__': 'T__ATTRIBUTE__',
    '__inline': 'TINLINE', '__inline__': 'TINLINE', '__signed': 'TSIGNED', '__signed__': 'TSIGNED', '__thread': 'TTHREAD_LOCAL',
    '__typeof': 'TTYPEOF', '__typeof__': 'TTYPEOF', '__volatile__': 'TVOLATILE',
})


def cstr(it, p):
    return bytes(read_cstr(it, p)).decode('latin-1')


def static_local(it, prog, fn, name):
    for n in facts.walk(fn):
        if n['kind'] == 'VarDecl' and n.get('name') == name and n.get('storageClass') == 'static':
            o = Obj(name, 'static', n['type'].get('desugaredQualType', n['type']['qualType']))
            it.curfn.append(fn)
            try:
                it.init_var(o, (), n, {})
            finally:
                it.curfn.pop()
            return o, n
    raise AnalysisBroken('static local %s not found in %s' % (name, fn.get('name')))


# ------------------------------------------------------------------ C13.c

def rule_keywords(chk, prog, tier):
    r = chk.rule('C13.c', 'keyword table: strictly ascending (bisection precondition), every spelling maps to the kind C11/C23/GNU assign, nothing else is a keyword; bisection finds exactly the table entries; keyword() is applied to every identifier token',
                 floor=200, oracle='DESIGN A.3')
    fn = prog.require_func('keyword', 'pp.c')
    it = Interp(prog)
    o, node = static_local(it, prog, fn, 'keywords')
    n = o.f.get(('#len',))
    if not n:
        raise AnalysisBroken('keywords[] has no elements')
    tokname = {v: k for k, v in cmodel.enum_names(prog, 'tokenkind')}
    table = []
    for i in range(n):
        table.append((cstr(it, o.f[(i, 'name')]), tokname.get(o.f[(i, 'value')], o.f[(i, 'value')])))
    where = 'pp.c:%s' % node.get('line')
    for i in range(1, n):
        a, b = table[i - 1][0], table[i][0]
        r.instance(a.encode('latin-1') < b.encode('latin-1'), 'keywords-sorted:%s<%s' % (a, b), where,
                   'keywords[%d]=%r is not strictly below keywords[%d]=%r under strcmp: the binary search in keyword() cannot find every entry' % (i - 1, a, i, b))
    have = dict(table)
    for sp, kind in sorted(KEYWORDS.items()):
        r.instance(have.get(sp) == kind, 'keyword:%s' % sp, where, 'spelling %r must be token %s, table says %s' % (sp, kind, have.get(sp)))
    for sp, kind in table:
        if sp not in KEYWORDS:
            r.violation('keyword-extra:%s' % sp, where, '%r is not a keyword spelling of C11/C23/GNU (oracle A.3) but is mapped to %s' % (sp, kind))
    # tokstr[kind] for keyword kinds is one of the kind's spellings
    ts = it.gobj('tokstr')
    kinds = cmodel.enum_names(prog, 'tokenkind')
    first = ev(prog, 'TALIGNAS'); last = ev(prog, 'T__ATTRIBUTE__')
    for name, v in kinds:
        if first <= v <= last:
            p = ts.f.get((v,))
            s = cstr(it, p) if isinstance(p, Ptr) else None
            if name == 'T_BITINT':
                continue    # reserved, intentionally not a keyword (A.3)
            ok = s is not None and KEYWORDS.get(s) == name
            r.instance(ok, 'tokstr:%s' % name, 'token.c', 'tokstr[%s] = %r is not a spelling of that keyword' % (name, s))
    # bisection over the ordering abstraction: lit == keywords[i]  or  strictly between neighbours
    tident = ev(prog, 'TIDENT')
    sorted_ok = all(table[i - 1][0].encode('latin-1') < table[i][0].encode('latin-1') for i in range(1, n))
    if sorted_ok:
        names_ptr = {}
        for pos2 in range(2 * n + 1):     # odd = equals entry (pos2-1)/2 ; even = gap before entry pos2/2
            def strcmp(it2, args, e, pos2=pos2):
                b = args[1]
                if not (isinstance(b, Ptr) and b.obj.kind == 'str'):
                    raise Unsupported('strcmp second argument')
                # locate which keyword entry this string belongs to
                idx = it2.user['idx_of'].get(b.obj.id)
                if idx is None:
                    raise Unsupported('strcmp with a non-table string')
                k2 = 2 * idx + 1
                return (pos2 > k2) - (pos2 < k2)
            def runner(it2, pos2=pos2):
                oo, _ = static_local(it2, prog, fn, 'keywords')
                it2.statics[node['id']] = oo
                it2.user['idx_of'] = {oo.f[(i, 'name')].obj.id: i for i in range(n)}
                tok = Obj('tok', 'heap')
                tok.f[('kind',)] = tident
                tok.f[('lit',)] = Ptr(Obj('lit', 'heap'), (0,))
                it2.call(fn, [Ptr(tok, ())])
                return tok.f[('kind',)], tok.f[('lit',)]
            runs = explore(prog, runner, {'strcmp': strcmp, 'free': lambda a, b, c: None}, max_runs=4)
            if len(runs) != 1 or runs[0].outcome != 'return':
                raise AnalysisBroken('keyword() bisection: %s' % [(x.outcome, x.detail) for x in runs])
            kind, lit = runs[0].value
            if pos2 % 2:
                i = (pos2 - 1) // 2
                want = ev(prog, table[i][1]) if isinstance(table[i][1], str) else table[i][1]
                r.instance(kind == want and lit is None, 'bisect:=%s' % table[i][0], 'pp.c:%s' % fn.get('line'),
                           'identifier equal to keywords[%d] must become %s with lit cleared; got kind %s' % (i, table[i][1], tokname.get(kind, kind)))
            else:
                r.instance(kind == tident and lit is not None, 'bisect:gap%d' % (pos2 // 2), 'pp.c:%s' % fn.get('line'),
                           'identifier between table entries must stay TIDENT; got %s' % tokname.get(kind, kind))
    # keyword() applied in next()
    nx = prog.require_func('next', 'pp.c')
    found = False
    for s in facts.walk(nx):
        if s['kind'] == 'IfStmt':
            c = facts.children(s)
            cond = facts.unwrap(c[0])
            if cond['kind'] == 'BinaryOperator' and cond.get('opcode') == '==':
                txt = (cond_text(prog, cond['inner'][0]), cond['inner'][1])
                try:
                    isident = prog.cev(cond['inner'][1]) == tident and txt[0] == 'tok.kind'
                except Exception:
                    isident = False
                if isident and any(n['kind'] == 'CallExpr' and callee_name(n) == 'keyword' for n in facts.walk(c[1])):
                    found = True
    r.instance(found, 'next-applies-keyword', 'pp.c:%s' % nx.get('line'), 'next() must pass every TIDENT through keyword()')
    r.exhaustive = True


def callee_name(call):
    c = facts.unwrap(call['inner'][0])
    if c['kind'] == 'DeclRefExpr':
        return c['referencedDecl'].get('name')
    return None


def cond_text(prog, n):
    n = facts.unwrap(n)
    if n['kind'] == 'MemberExpr':
        return cond_text(prog, n['inner'][0]) + ('->' if n.get('isArrow') else '.') + n.get('name', '')
    if n['kind'] == 'DeclRefExpr':
        return n['referencedDecl'].get('name', '?')
    return n['kind']


# ------------------------------------------------------------------ C13.a

class Leaf(Exception):
    def __init__(self, what): self.what = what


def scanner_world(it, prog, first=None):
    s = Obj('scanner', 'heap')
    s.f[('chr',)] = first if first is not None else Sym('c0', ALLCH)
    s.f[('usebuf',)] = 0
    s.f[('sawspace',)] = 0; s.f[('haspeek',)] = 0
    s.f[('file',)] = Ptr(Obj('FILE', 'heap'), ())
    s.f[('loc', 'file')] = Ptr(Obj('fname', 'heap'), (0,))
    s.f[('loc', 'line')] = Sym('line0'); s.f[('loc', 'col')] = Sym('col0')
    buf = Obj('buf', 'heap')
    s.f[('buf', 'str')] = Ptr(buf, (0,)); s.f[('buf', 'len')] = 0; s.f[('buf', 'cap')] = 256
    s.f[('next',)] = None
    it.user['consumed'] = []
    it.user['buf'] = buf
    it.user['nadv'] = 0
    return s


def scan_models(prog, stop_ws=True):
    WS = frozenset(map(ord, ' \t\f\v'))
    def domain(v):
        if isinstance(v, int): return frozenset([v])
        if isinstance(v, Sym) and v.dom is not None: return v.dom
        raise Unsupported('character value %r' % (v,))
    def nextchar(it, args, e):
        s = args[0]
        cur = it.load(s.obj, s.path + ('chr',))
        d = domain(cur)
        it.user['consumed'].append(d)
        if it.load(s.obj, s.path + ('usebuf',)):
            b = it.user['buf']
            n = it.load(s.obj, s.path + ('buf', 'len'))
            b.f[(n,)] = cur
            it.assign(s.obj, s.path + ('buf', 'len'), n + 1)
        it.event('adv', d)
        if stop_ws and len(it.user['consumed']) == 1 and d <= WS:
            raise Leaf('WS')
        it.user['nadv'] += 1
        it.assign(s.obj, s.path + ('chr',), Sym('c%d' % it.user['nadv'], ALLCH))
        return None
    def bufadd(it, args, e):
        it.event('bufadd', args[1])
        return None
    def leaf(name, ret):
        def f(it, args, e):
            it.event('leaf', name)
            return ev(prog, ret)
        return f
    def comment(it, args, e):
        s = args[0]
        c = it.load(s.obj, s.path + ('chr',))
        t = it.split(it.arith2(c, None, lambda a, b: int(a in (ord('/'), ord('*')))), 'comment')
        if t:
            it.event('leaf', 'comment')
            raise Leaf('COMMENT')
        return 0
    def ungetc(it, args, e):
        it.event('ungetc', domain(args[0]) if not isinstance(args[0], int) else frozenset([args[0]]))
        return 0
    def error(it, args, e):
        raise Terminal('error', args)
    return {'nextchar': nextchar, 'bufadd': bufadd, 'stringlit': leaf('stringlit', 'TSTRINGLIT'), 'charconst': leaf('charconst', 'TCHARCONST'),
            'ident': leaf('ident', 'TIDENT'), 'number': leaf('number', 'TNUMBER'), 'comment': comment, 'ungetc': ungetc, 'error': error}


def chars(d):
    """printable rendering of a character set"""
    if len(d) == 1:
        c = next(iter(d))
        return 'EOF' if c == -1 else (chr(c) if 32 < c < 127 else '\\x%02x' % c)
    if len(d) > 200:
        miss = ALLCH - d
        return 'not{' + ','.join(chars(frozenset([c])) for c in sorted(miss)) + '}'
    return '{' + ','.join(chars(frozenset([c])) for c in sorted(d)) + '}'


def rule_punct(chk, prog, tier):
    r = chk.rule('C13.a', 'scankind(): the punctuator decision tree equals tokstr[] and C11 6.4.6 (minus digraphs, plus ::), obeys maximal munch, classifies every other first character (identifier / pp-number / literal prefixes / comments / EOF / newline / other), and the ".." push-back restores the stream',
                 floor=120, oracle='DESIGN A.2')
    fn = prog.require_func('scankind', 'scan.c')
    models = scan_models(prog)
    tokname = {v: k for k, v in cmodel.enum_names(prog, 'tokenkind')}
    def runner(it):
        s = scanner_world(it, prog)
        loc = Obj('tokloc', 'heap')
        try:
            ret = it.call(fn, [Ptr(s, ()), Ptr(loc, ())])
        except Leaf as l:
            ret = l.what
        cur = s.f[('chr',)]
        la = cur.dom if isinstance(cur, Sym) else frozenset([cur])
        pk = s.f.get(('peekchr',))
        it.event('peek', int(bool(s.f.get(('haspeek',)))), (pk.dom if isinstance(pk, Sym) else pk))
        return (ret, list(it.user['consumed']), la, s.f.get(('usebuf',)), s.f.get(('sawspace',)),
                loc.f.get(('line',)), s.f[('loc', 'line')], s.f[('loc', 'col')])
    runs = explore(prog, runner, models, max_runs=5000)
    it0 = Interp(prog)
    ts = it0.gobj('tokstr')
    tokspell = {}
    lo, hi = ev(prog, 'TLBRACK'), ev(prog, 'THASHHASH')
    for v in range(lo, hi + 1):
        p = ts.f.get((v,))
        tokspell[tokname[v]] = cstr(it0, p) if isinstance(p, Ptr) else None
    where = 'scan.c:%s' % fn.get('line')
    # (ii) tokstr == oracle list
    for name, sp in tokspell.items():
        r.instance(sp in PUNCT, 'tokstr-punct:%s' % name, 'token.c', 'tokstr[%s] = %r is not a C11 punctuator (A.2)' % (name, sp))
    for sp in PUNCT:
        r.instance(sp in tokspell.values(), 'punct-has-token:%s' % sp, 'token.c', 'punctuator %r has no token kind in tokstr[]' % sp)
    spell2tok = {sp: name for name, sp in tokspell.items()}
    # decode paths
    found = {}      # spelling -> (token, lookahead)
    first_seen = frozenset()
    for run in runs:
        if run.outcome != 'return':
            r.violation('scankind-path:%s' % run.outcome, where, 'path ends in %s: %s' % (run.outcome, run.detail))
            continue
        ret, consumed, la, usebuf, sawspace, tl, sl, sc = run.value
        evs = run.events
        leafs = [e[1] for e in evs if e[0] == 'leaf']
        unget = [e for e in evs if e[0] == 'ungetc']
        if not consumed:
            # nothing consumed: EOF (or a leaf called on the first character)
            d = la
            first_seen |= d
            if leafs:
                kind = leafs[0]
            else:
                kind = tokname.get(ret, ret) if isinstance(ret, int) else ret
            classify_first(r, d, kind, where, prog)
            continue
        d0 = consumed[0]
        first_seen |= d0
        single = all(len(d) == 1 for d in consumed)
        if ret == 'WS':
            r.instance(d0 <= frozenset(map(ord, ' \t\f\v')) and sawspace == 1, 'ws:%s' % chars(d0), where, 'white space must be skipped and recorded as leading space')
            continue
        if ret == 'COMMENT':
            ok = single and len(consumed) == 1 and consumed[0] == frozenset([ord('/')])
            r.instance(ok, 'comment-entry:%s' % ''.join(chars(d) for d in consumed), where, 'comments start with "/" followed by "/" or "*"')
            found.setdefault('/comment', True)
            continue
        if leafs:
            classify_multi(r, consumed, leafs[0], evs, where)
            continue
        tk = tokname.get(ret, ret)
        peek = next((e for e in evs if e[0] == 'peek'), ('peek', 0, None))
        if unget or peek[1]:
            # ".." push-back: effective spelling '.', the stream must be restored: the third character goes back to the file (one ungetc) or into the scanner's one-character peek slot
            third_kept = (len(unget) == 1 and not peek[1]) or (not unget and peek[1] == 1 and isinstance(peek[2], frozenset) and ord('.') not in peek[2] and len(peek[2]) == len(ALLCH) - 1)
            ok = [chars(d) for d in consumed] == ['.', '.'] and tk == 'TPERIOD' and la == frozenset([ord('.')]) and third_kept
            r.instance(ok, 'pushback:..', where, '".." followed by a non-period must return "." with the second "." as the current character again and the third character kept (ungetc or peek slot); got %s after %s, ungetc %s, peek %s' % (tk, [chars(d) for d in consumed], len(unget), peek[1:]))
            continue
        if not single:
            if tk == 'TOTHER' and len(consumed) == 1:
                classify_first(r, d0, 'TOTHER', where, prog, consumed_one=True)
                continue
            r.violation('scankind-path:%s' % '|'.join(chars(d) for d in consumed), where, 'token %s returned after a non-literal character sequence' % tk)
            continue
        sp = ''.join(chr(next(iter(d))) for d in consumed)
        if tk == 'TNEWLINE':
            r.instance(sp == '\n', 'newline', where, 'TNEWLINE for %r' % sp)
            continue
        if sp in found and found[sp][0] != tk:
            r.violation('punct-ambiguous:%s' % sp, where, 'spelling %r returns both %s and %s' % (sp, found[sp][0], tk))
        prev = found.get(sp)
        found[sp] = (tk, (prev[1] | la) if prev else la)
    for sp in PUNCT:
        if sp not in found:
            r.violation('punct:%s' % sp, where, 'no path of scankind() recognises the punctuator %r' % sp)
            continue
        tk, la = found[sp]
        r.instance(spell2tok.get(sp) == tk, 'punct:%s' % sp, where, 'spelling %r must produce %s, scanner returns %s' % (sp, spell2tok.get(sp), tk),
                   sample='%r -> %s unless followed by %s' % (sp, tk, chars(ALLCH - la)))
        # (iii) maximal munch: returned only when no longer punctuator (or comment / pp-number) could be formed
        bad = []
        for c in la:
            if c < 0: continue
            ext = sp + chr(c)
            if ext in PUNCT or (sp == '/' and chr(c) in '/*') or (sp == '.' and chr(c) in '0123456789'):
                bad.append(ext)
            if ext == '..':
                pass
        r.instance(not bad, 'munch:%s' % sp, where, 'the scanner returns %r although the input continues to the longer token %s' % (sp, bad))
    for sp in found:
        if sp not in PUNCT and not sp.startswith('/comment'):
            r.violation('punct-extra:%s' % sp, where, 'scankind() recognises %r as %s, which is not a C11 punctuator' % (sp, found[sp][0]))
    r.instance(first_seen == ALLCH, 'first-char-coverage', where, 'every byte value and EOF must be classified; missing %s' % chars(ALLCH - first_seen))
    r.exhaustive = True


def classify_first(r, d, kind, where, prog, consumed_one=False):
    """first-character classes that are not punctuators"""
    import string
    digits = frozenset(map(ord, string.digits))
    alpha = frozenset(map(ord, string.ascii_letters + '_'))
    for c in sorted(d):
        if c == -1: want = 'TEOF'
        elif c in digits: want = 'number'
        elif c in alpha and chr(c) not in 'LUu': want = 'ident'
        elif c in alpha: want = 'prefix'
        elif chr(c) == '"': want = 'stringlit'
        elif chr(c) == "'": want = 'charconst'
        else: want = 'TOTHER'
        r.instance(kind == want, 'first:%s' % chars(frozenset([c])), where, 'first character %s must start %s, scanner goes to %s' % (chars(frozenset([c])), want, kind))


def classify_multi(r, consumed, leaf, evs, where):
    seq = [chars(d) for d in consumed]
    key = 'prefix-path:%s->%s' % ('|'.join(seq), leaf)
    c0 = consumed[0]
    if c0 == frozenset([ord('.')]):
        ok = leaf == 'number' and len(consumed) == 1 and any(e[0] == 'bufadd' and e[1] == ord('.') for e in evs)
        r.instance(ok, 'dot-digit->number', where, '"." followed by a digit starts a pp-number that includes the period')
        return
    # literal prefixes L, U, u, u8
    ok = False
    if c0 <= frozenset(map(ord, 'LUu')):
        if len(consumed) == 1:
            ok = leaf in ('charconst', 'stringlit', 'ident')
        elif len(consumed) == 2 and c0 == frozenset([ord('u')]) and consumed[1] == frozenset([ord('8')]):
            ok = leaf in ('charconst', 'stringlit', 'ident')
    r.instance(ok, key, where, 'unexpected scanner path %s -> %s' % (seq, leaf))


# ------------------------------------------------------------------ C13.b (number, ident)

def tabulate_loop(prog, fn, models_extra, state_vars, entry_first):
    """Explore a scanner loop function: every nextchar() call is an automaton step.
    Returns transitions {(state, frozenset chars) -> state or 'ACCEPT'}.  state = tuple of named locals."""
    raise NotImplementedError


def rule_number_ident(chk, prog, tier):
    r = chk.rule('C13.b', 'pp-number scanner accepts digits, letters, "_", "." and a sign only directly after e E p P (6.4.8); identifier scanner continues over letters, digits and "_" (6.4.2.1)',
                 floor=500, oracle='C11 6.4.8, 6.4.2.1')
    import string
    num = prog.require_func('number', 'scan.c')
    idf = prog.require_func('ident', 'scan.c')
    # one step of number(): state = allowsign in {0,1}; input = next character; result = continue(new allowsign) | stop
    # Extracted by running number() with a scripted nextchar that delivers [Sym] then EOF-stop.
    for st in (0, 1):
        # to reach allowsign==st feed one concrete character first: 'e' sets it, '1' clears it
        pre = ord('e') if st else ord('1')
        def runner(it, pre=pre):
            s = scanner_world(it, prog, first=ord('0'))
            seq = [pre, Sym('c', ALLCH)]
            it.user['seq'] = seq
            it.user['pos'] = 0
            def nextchar(it2, args, e):
                i = it2.user['pos']
                if i >= len(seq):
                    raise Leaf('CONT')
                it2.user['pos'] = i + 1
                it2.assign(s, ('chr',), seq[i])
                return None
            it.models['nextchar'] = nextchar
            try:
                it.call(num, [Ptr(s, ())])
                res = 'STOP'
            except Leaf:
                res = 'CONT'
            c = seq[1]
            return res, c.dom
        runs = explore(prog, runner, {}, max_runs=600)
        cont = frozenset(); stop = frozenset()
        for run in runs:
            if run.outcome != 'return':
                raise AnalysisBroken('number(): %s %s' % (run.outcome, run.detail))
            res, dom = run.value
            if res == 'CONT': cont |= dom
            else: stop |= dom
        if cont & stop:
            raise AnalysisBroken('number(): ambiguous step for %s' % chars(cont & stop))
        want = frozenset(map(ord, string.digits + string.ascii_letters + '_.'))
        if st:
            want |= frozenset(map(ord, '+-'))
        for c in sorted(ALLCH):
            got = c in cont
            exp = c in want
            r.instance(got == exp, 'ppnumber:after-%s:%s' % ('exp' if st else 'other', chars(frozenset([c]))), 'scan.c:%s' % num.get('line'),
                       'after %s, character %s must %s the pp-number; scanner %s' % ('e/E/p/P' if st else 'a non-exponent character', chars(frozenset([c])),
                                                                                   'continue' if exp else 'end', 'continues' if got else 'stops'))
    # which characters set the exponent state: run two steps  X then '+'
    def runner2(it):
        s = scanner_world(it, prog, first=ord('0'))
        x = Sym('x', frozenset(map(ord, string.digits + string.ascii_letters + '_.')))
        seq = [x, ord('+'), ord(';')]
        it.user['pos'] = 0
        def nextchar(it2, args, e):
            i = it2.user['pos']
            if i >= len(seq): raise Leaf('CONT')
            it2.user['pos'] = i + 1
            it2.assign(s, ('chr',), seq[i])
            return None
        it.models['nextchar'] = nextchar
        it.call(num, [Ptr(s, ())])
        return it.user['pos'], x.dom
    expset = frozenset()
    for run in explore(prog, runner2, {}, max_runs=200):
        if run.outcome != 'return':
            raise AnalysisBroken('number(): %s %s' % (run.outcome, run.detail))
        pos, dom = run.value
        if pos == 3: expset |= dom     # the '+' was absorbed
    want = frozenset(map(ord, 'eEpP'))
    for c in sorted(frozenset(map(ord, string.digits + string.ascii_letters + '_.'))):
        r.instance((c in expset) == (c in want), 'ppnumber:sign-after:%s' % chr(c), 'scan.c:%s' % num.get('line'),
                   'a sign directly after %r %s belong to the pp-number (6.4.8); scanner %s it' % (chr(c), 'must' if c in want else 'must not', 'absorbs' if c in expset else 'splits'))
    # ident(): continue set
    def runner3(it):
        c = Sym('c', ALLCH)
        s = scanner_world(it, prog, first=c)
        it.user['pos'] = 0
        def nextchar(it2, args, e):
            raise Leaf('CONT')
        it.models['nextchar'] = nextchar
        try:
            it.call(idf, [Ptr(s, ())]); res = 'STOP'
        except Leaf:
            res = 'CONT'
        return res, c.dom, s.f.get(('usebuf',))
    cont = frozenset()
    for run in explore(prog, runner3, {}, max_runs=600):
        if run.outcome != 'return':
            raise AnalysisBroken('ident(): %s %s' % (run.outcome, run.detail))
        res, dom, usebuf = run.value
        if res == 'CONT': cont |= dom
    want = frozenset(map(ord, string.digits + string.ascii_letters + '_'))
    for c in sorted(ALLCH):
        r.instance((c in cont) == (c in want), 'ident-continue:%s' % chars(frozenset([c])), 'scan.c:%s' % idf.get('line'),
                   'identifier %s continue over %s' % ('must' if c in want else 'must not', chars(frozenset([c]))))
    r.exhaustive = True


# ------------------------------------------------------------------ C13.d comments

def rule_comments(chk, prog, tier):
    r = chk.rule('C13.d', 'after a `/`, comment() consumes exactly a // comment up to (not including) the newline or a /* comment up to and including the first */ that follows the opening (the opening star cannot also close it), reports an unterminated comment, and consumes nothing otherwise',
                 floor=1000, oracle='C11 6.4.9')
    import itertools, par
    fn = prog.require_func('comment', 'scan.c')
    AL = '/*a\n'
    maxlen = 6 if tier == 'thorough' else 5
    strs = ['']
    for n in range(1, maxlen + 1):
        strs += [''.join(p) for p in itertools.product(AL, repeat=n)]
    chunks = [strs[k::32] for k in range(32)]
    def work(chunk):
        out = []
        for st in chunk:
            def runner(it):
                it.MAX_STEPS = 20000
                s = Obj('scanner', 'heap'); pos = {'i': 0}
                s.f[('chr',)] = ord(st[0]) if st else -1; s.f[('usebuf',)] = 0; s.f[('sawspace',)] = 0; s.f[('haspeek',)] = 0
                s.f[('loc', 'file')] = None; s.f[('loc', 'line')] = 1; s.f[('loc', 'col')] = 1
                def nextchar(i2, a, e):
                    pos['i'] += 1
                    i2.assign(s, ('chr',), ord(st[pos['i']]) if pos['i'] < len(st) else -1); return None
                it.models['nextchar'] = nextchar
                it.models['error'] = lambda i2, a, e: (_ for _ in ()).throw(Terminal('error', cmodel.fmt_of(i2, a, 1)))
                res = it.call(fn, [Ptr(s, ())])
                return bool(res), min(pos['i'], len(st)), s.f[('sawspace',)]
            try:
                runs = explore(prog, runner, {}, max_runs=4, on_unsupported='keep')
                out.append((st, runs[0].outcome, runs[0].value if runs[0].outcome == 'return' else str(runs[0].detail)))
            except AnalysisBroken as x:
                out.append((st, 'broken', str(x)))
        return out
    for res in par.pmap(work, chunks):
        for st, outcome, val in res:
            key = 'comment:/%s<EOF>' % st.replace('\n', '\\n')
            if outcome in ('unsupported',) or (outcome == 'broken' and 'budget' not in val):
                raise AnalysisBroken('comment(%r): %s' % (st, val))
            if st[:1] == '/':
                j = st.find('\n')
                want = ('return', (True, j if j >= 0 else len(st), 1))
            elif st[:1] == '*':
                j = st.find('*/', 1)
                want = ('return', (True, j + 2, 1)) if j >= 0 else ('terminal:error', None)
            else:
                want = ('return', (False, 0, 0))
            ok = outcome == want[0] and (want[1] is None or val == want[1])
            r.instance(ok, key, 'scan.c:%s' % fn.get('line'), 'expected %s, got %s %s' % (want, outcome, val))
    r.exhaustive = True


# ------------------------------------------------------------------ C13.e random lexing

def ref_lex(src):
    """reference pp-token lexer (C11 5.1.1.2 phases 2-3, 6.4): -> list of token kind names, or ('error', why)"""
    s = src.replace('\\\n', '')          # phase 2
    P3 = ['...', '<<=', '>>=']
    P2 = ['->', '++', '--', '<<', '>>', '<=', '>=', '==', '!=', '&&', '||', '*=', '/=', '%=', '+=', '-=', '&=', '^=', '|=', '##', '::']
    KIND = {'[': 'TLBRACK', ']': 'TRBRACK', '(': 'TLPAREN', ')': 'TRPAREN', '{': 'TLBRACE', '}': 'TRBRACE', '.': 'TPERIOD', '->': 'TARROW', '++': 'TINC', '--': 'TDEC', '&': 'TBAND', '*': 'TMUL',
            '+': 'TADD', '-': 'TSUB', '~': 'TBNOT', '!': 'TLNOT', '/': 'TDIV', '%': 'TMOD', '<<': 'TSHL', '>>': 'TSHR', '<': 'TLESS', '>': 'TGREATER', '<=': 'TLEQ', '>=': 'TGEQ', '==': 'TEQL', '!=': 'TNEQ',
            '^': 'TXOR', '|': 'TBOR', '&&': 'TLAND', '||': 'TLOR', '?': 'TQUESTION', ':': 'TCOLON', '::': 'TCOLONCOLON', ';': 'TSEMICOLON', '...': 'TELLIPSIS', '=': 'TASSIGN', '*=': 'TMULASSIGN',
            '/=': 'TDIVASSIGN', '%=': 'TMODASSIGN', '+=': 'TADDASSIGN', '-=': 'TSUBASSIGN', '<<=': 'TSHLASSIGN', '>>=': 'TSHRASSIGN', '&=': 'TBANDASSIGN', '^=': 'TXORASSIGN', '|=': 'TBORASSIGN',
            ',': 'TCOMMA', '#': 'THASH', '##': 'THASHHASH'}
    out = []; i = 0; n = len(s)
    import re as _re
    while i < n:
        ch = s[i]
        if ch in ' \t\f\v': i += 1; continue
        if ch == '\n': out.append('TNEWLINE'); i += 1; continue
        if s.startswith('//', i):
            j = s.find('\n', i); i = n if j < 0 else j; continue
        if s.startswith('/*', i):
            j = s.find('*/', i + 2)
            if j < 0: return out, ('error', 'EOF in comment')
            i = j + 2; continue
        m = _re.match(r'(u8|u|U|L)?"', s[i:])
        if m or ch == '"':
            j = i + (len(m.group(0)) if m else 1)
            while True:
                if j >= n: return out, ('error', 'EOF in string')
                if s[j] == '\n': return out, ('error', 'newline in string')
                if s[j] == '\\':
                    if j + 1 >= n: return out, ('error', 'EOF in string')
                    if s[j + 1] not in '\'"?\\abfnrtvxuU01234567': return out, ('error', 'invalid escape')
                    j += 2; continue
                if s[j] == '"': break
                j += 1
            out.append('TSTRINGLIT'); i = j + 1; continue
        m = _re.match(r"(u8|u|U|L)?'", s[i:])
        if m:
            j = i + len(m.group(0))
            while True:
                if j >= n: return out, ('error', 'EOF in character constant')
                if s[j] == '\n': return out, ('error', 'newline in character constant')
                if s[j] == '\\':
                    if j + 1 >= n: return out, ('error', 'EOF in character constant')
                    if s[j + 1] not in '\'"?\\abfnrtvxuU01234567': return out, ('error', 'invalid escape')
                    j += 2; continue
                if s[j] == "'": break
                j += 1
            out.append('TCHARCONST'); i = j + 1; continue
        m = _re.match(r'\.?[0-9]([eEpP][+-]|[0-9A-Za-z_.])*', s[i:])
        if m: out.append('TNUMBER'); i += m.end(); continue
        m = _re.match(r'[A-Za-z_][A-Za-z0-9_]*', s[i:])
        if m: out.append('TIDENT'); i += m.end(); continue
        for tbl in (P3, P2):
            p = next((p for p in tbl if s.startswith(p, i)), None)
            if p: break
        if p: out.append(KIND[p]); i += len(p); continue
        if ch in KIND: out.append(KIND[ch]); i += 1; continue
        out += ['TOTHER'] * max(1, len(ch.encode('utf-8', 'surrogateescape'))); i += 1          # the scanner works on bytes: a multi-byte character outside a literal is one stray token per byte
    return out, None


def rule_random_lex(chk, prog, tier):
    r = chk.rule('C13.e', 'random character sequences (punctuators, identifiers, literal prefixes, pp-numbers, literals with escapes, comments, white space, and backslash-newline splices at arbitrary positions) are split into the preprocessing tokens of C11 6.4 by the real nextchar/scankind',
                 floor=500, oracle='reference lexer props/c13.py:ref_lex (translation phases 2-3)')
    import random, par
    from props import c11
    rnd = random.Random(4242)
    PIECES = ['a', 'u8', 'L', 'U', 'u', 'x1', '_', '0', '1', '12', '0x1f', '1e', '+', '-', '1.', '.5', 'p', 'e', '.', '..', '...', '->', '-', '>', '>>', '>>=', '<', '<<=', '=', '==', '!', '&', '&&', '|', '^', '%',
              '*', '/', '//', '/*', '*/', ':', '::', '#', '##', '?', ';', ',', '(', ')', '[', ']', '{', '}', '~', '"', "'", '"s"', "'c'", '\\n', '\\', '\\x', ' ', '  ', '\t', '\n', '\\\n', '\\\n', '@', '$', '`', '"a\\"b"', "'\\''",
              # form feed and vertical tab are white space; bytes >= 0x80 (also 0xff, which is not EOF) are ordinary characters of comments and literals
              # a sign continues a pp-number after e/E/p/P whatever the digits before mean (0xe+1 is ONE preprocessing number, 6.4.8)
              '0xe', '0XE', '0x1p', '1P', '0xe+', '1E-',
              '\f', '\v', ' \f', '"\udcff"', '/*\udcff*/', '//\udcff\n', '"\u00e9"', "'\udcff'"]
    N = 700 if tier == 'quick' else 6000
    cases = []; seen = set()
    while len(cases) < N:
        s_ = ''.join(rnd.choice(PIECES) for _ in range(rnd.randint(1, 7)))
        if s_ in seen: continue
        seen.add(s_); cases.append(s_)
    names = {v: k for k, v in cmodel.enum_names(prog, 'tokenkind')}
    def work(chunk):
        out = []
        for src in chunk:
            want, err = ref_lex(src)
            # scan until EOF or error: ask for one more token than the reference expects
            try:
                got = c11.scan_concrete(prog, src, len(want) + 1)
                out.append((src, want, err, [names.get(k, k) for k, _, _ in got], None))
            except AnalysisBroken as x:
                out.append((src, want, err, None, str(x)))
        return out
    for res in par.pmap(work, [cases[k::48] for k in range(48)]):
        for src, want, err, got, broke in res:
            key = 'lex:%r' % src
            if broke is not None:
                if 'terminal:error' in broke and err is not None:
                    r.instance(True, key, 'scan.c:scankind', ''); continue
                if 'terminal:error' in broke:
                    r.instance(False, key, 'scan.c:scankind', 'valid input rejected: %s; expected tokens %s' % (broke[-120:], want)); continue
                raise AnalysisBroken('scankind(%r): %s' % (src, broke))
            if err is not None:
                r.instance(False, key, 'scan.c:scankind', 'must be diagnosed (%s); scanned as %s' % (err[1], got)); continue
            r.instance(got == want + ['TEOF'], key, 'scan.c:scankind', 'expected %s then end of input; scanned %s' % (want, got))
    r.exhaustive = False


def run(chk, tier):
    prog = facts.programs()['cproc-qbe']
    chk.guard('C13.a', lambda: rule_punct(chk, prog, tier))
    chk.guard('C13.b', lambda: rule_number_ident(chk, prog, tier))
    chk.guard('C13.c', lambda: rule_keywords(chk, prog, tier))
    chk.guard('C13.d', lambda: rule_comments(chk, prog, tier))
    chk.guard('C13.e', lambda: rule_random_lex(chk, prog, tier))
    from props import c11
    chk.guard('C11.c', lambda: c11.rule_nextchar(chk, prog, tier))      # the character reader (splices)
    chk.guard('C11.d', lambda: c11.rule_tokenloc(chk, prog, tier))
