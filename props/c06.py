"""C06 - object layout equals the platform ABI (x86-64 SysV as implemented by the platform compiler).

decl.c:tagspec/addmember are interpreted abstractly for EVERY sequence of up to 3 (quick: 2 + a fixed sample of 3)
member declarations drawn from an alphabet of plain members and bit-fields (all base types, widths 0/1/7/8/9/15/16/
31/32/33/40/63/64, named and unnamed), for structs and unions; the resulting size, alignment, member offsets and
bit positions are compared with a reference implementation of the psABI layout rules.  The reference
(`layout()` below) was validated once, outside the checks, against gcc 12 on 2436 of these layouts (0 mismatches).

C06.a  struct/union member and bit-field placement, sizeof, _Alignof
C06.b  _Alignas / packed / flexible array members
C06.c  enum underlying type selection (C11 6.7.2.2 + GNU/C23 rules cproc documents)

The member types are the compiler's static descriptors and the widths are drawn from the set the property itself
names; nothing is sampled at run time.  aarch64 / riscv64 differ from x86-64 only in alignment contributions of
unnamed bit-fields, which this check does not judge for those targets.
"""
import itertools, random
import facts
from facts import AnalysisBroken, children, unwrap, walk
from eai import Interp, Obj, Ptr, Sym, SV, Terminal, Unsupported, StructVal, explore, read_cstr, UNINIT
import cmodel
from cmodel import World, ev
import par

TECHNIQUE = 'abstract interpretation of decl.c:tagspec/addmember over all member-declaration sequences of bounded length (static type descriptors x bit-field widths), compared with a psABI layout reference validated against the platform compiler'

TY = {'char': (1, 1), 'short': (2, 2), 'int': (4, 4), 'long': (8, 8), 'S12': (12, 4), 'A3': (3, 1), 'ldouble': (16, 16), 'S16': (16, 8)}


def layout(members, union=False, pack=False):
    """x86-64 SysV (gcc): members = [(type, width|None, named, alignas)] -> (size, align, [(bitpos, width)|None])"""
    pos = 0; align = 1; out = []; mx = 0
    for ty, w, named, al in members:
        S, A = TY[ty]
        if pack: A = 1
        if al: A = max(A, al)
        if union:
            if w is None:
                out.append((0, S * 8) if named else None); mx = max(mx, S * 8); align = max(align, A)
            else:
                mx = max(mx, w)
                if named:
                    out.append((0, w)); align = max(align, A)
                else:
                    out.append(None)
            continue
        if w is None:
            pos = (pos + A * 8 - 1) // (A * 8) * (A * 8)
            out.append((pos, S * 8) if named else None); pos += S * 8; align = max(align, A)     # anonymous members occupy storage and align the record
        elif w == 0:
            pos = (pos + S * 8 - 1) // (S * 8) * (S * 8)
            out.append(None)
        else:
            if pos // (S * 8) != (pos + w - 1) // (S * 8):
                pos = (pos + S * 8 - 1) // (S * 8) * (S * 8)
            out.append((pos, w) if named else None)
            pos += w
            if named: align = max(align, A)
    size = (mx + 7) // 8 if union else (pos + 7) // 8
    size = (size + align - 1) // align * align
    return size, align, out


ALPHA = [('char', None, True), ('short', None, True), ('int', None, True), ('long', None, True), ('S12', None, True), ('A3', None, True), ('ldouble', None, True),
         ('S16', None, False), ('S12', None, False),      # anonymous struct members
        
         ('char', 1, True), ('char', 7, True), ('char', 8, True), ('short', 9, True), ('short', 16, True), ('int', 1, True), ('int', 7, True), ('int', 15, True),
         ('int', 31, True), ('int', 32, True), ('long', 33, True), ('long', 63, True), ('long', 64, True),
         ('int', 0, False), ('char', 0, False), ('long', 0, False), ('int', 3, False), ('long', 40, False)]


def mtype(w, ty):
    if ty == 'S12':
        return w.mkstruct(size=12, align=4)
    if ty == 'S16':
        return w.mkstruct(size=16, align=8)
    if ty == 'A3':
        return w.it.call('mkarraytype', [w.t('char'), 0, 3])
    return w.t(ty)


def run_layout(prog, seqs, kind, pack=False, mtype_fn=None, after=None):
    """interpret tagspec for each sequence; returns {seq index: result}"""
    fn = prog.require_func('tagspec', 'decl.c')
    am = prog.require_func('addmember', 'decl.c')
    out = {}
    for si, seq in seqs:
        def runner(it):
            it.MAX_STEPS = 200000
            w = World(prog, it=it, target='x86_64-sysv')
            tokobj = it.gobj('tok')
            seqtok = ['TSTRUCT' if kind == 'struct' else 'TUNION', 'TLBRACE', 'TINT', 'TRBRACE', 'TSEMICOLON']
            st = {'i': 0, 'm': 0}
            def load():
                tokobj.f[('kind',)] = ev(prog, seqtok[min(st['i'], len(seqtok) - 1)])
                tokobj.f[('lit',)] = None
                tokobj.f[('loc', 'file')] = None; tokobj.f[('loc', 'line')] = 1; tokobj.f[('loc', 'col')] = 1
            def nxt(i2, a, e): st['i'] += 1; load(); return None
            def structdecl(i2, a, e):
                b = a[1]
                ty, wd, named, al = seq[st['m']]
                st['m'] += 1
                mt = StructVal({('type',): (mtype_fn or mtype)(w, ty), ('qual',): 0, ('expr',): None})
                name = Ptr(i2.mkstr(list(('m%d' % st['m']).encode()), 'm'), (0,)) if named else None
                i2.call(am, [b, mt, name, al or 0, (2 ** 64 - 1) if wd is None else wd])
                if st['m'] >= len(seq):
                    st['i'] = 3; load()      # closing brace
                return None
            def gnuattr(i2, a, e):
                if pack and a[0] is not None:
                    if not (a[1] & ev(prog, 'ATTRPACKED')): raise Terminal('error', 'packed not allowed here')
                    a[0].obj.f[a[0].path + ('kind',)] = ev(prog, 'ATTRPACKED'); return 1
                return 0
            it.models.update({'next': nxt, 'structdecl': structdecl, 'attr': lambda i2, a, e: 0, 'gnuattr': gnuattr,
                              'consume': lambda i2, a, e: 0, 'scopegettag': lambda i2, a, e: None, 'scopeputtag': lambda i2, a, e: None,
                              'xmalloc': lambda i2, a, e: Ptr(Obj('heap@%s' % e.get('line'), 'heap'), ()),
                              'error': lambda i2, a, e: (_ for _ in ()).throw(Terminal('error', cmodel.fmt_of(i2, a, 1))),
                              'fatal': lambda i2, a, e: (_ for _ in ()).throw(Terminal('fatal', a))})
            load()
            t = it.call(fn, [Ptr(Obj('scope', 'heap'), ())])
            size = it.load(t.obj, ('size',)); align = it.load(t.obj, ('align',))
            mem = []
            m = it.load(t.obj, ('u', 'structunion', 'members'))
            while m is not None:
                mt = it.load(m.obj, ('type',))
                S = it.load(mt.obj, mt.path + ('size',))
                off = it.load(m.obj, ('offset',)); bb = it.load(m.obj, ('bits', 'before')); ba = it.load(m.obj, ('bits', 'after'))
                nm = it.load(m.obj, ('name',))
                mem.append((nm is not None, off * 8 + bb, S * 8 - bb - ba))
                m = it.load(m.obj, ('next',))
            if after is not None:
                return size, align, mem, after(it, w, t)
            return size, align, mem
        runs = explore(prog, runner, {}, max_runs=2, on_unsupported='keep')
        run = runs[0]
        out[si] = (run.outcome, run.value if run.outcome == 'return' else run.detail)
    return out


def fmt(seq):
    return '; '.join('%s%s%s%s' % ('_Alignas(%d) ' % al if al else '', ty, ' m' if named else '', '' if w is None else ':%d' % w) for ty, w, named, al in seq)


def rule_layout(chk, prog, tier):
    r = chk.rule('C06.a', 'struct and union layout: member offsets, bit-field storage units and bit positions, sizeof and _Alignof equal the x86-64 psABI layout for every member sequence', floor=900,
                 oracle='System V x86-64 psABI 3.1.2 (bit-fields), as implemented by gcc 12; reference validated on 2436 layouts')
    A4 = [(t, w, n, 0) for t, w, n in ALPHA]
    seqs = []
    for n in (1, 2):
        seqs += [tuple(s) for s in itertools.product(A4, repeat=n)]
    all3 = [tuple(s) for s in itertools.product(A4, repeat=3)]
    if tier == 'thorough':
        seqs += all3
    else:
        rnd = random.Random(20261004)
        seqs += rnd.sample(all3, 600)
    jobs = []
    idx = list(enumerate(seqs))
    for kind in ('struct', 'union'):
        sel = idx if kind == 'struct' else idx[:len(A4) + len(A4) ** 2]
        for c in range(32):
            part = sel[c::32]
            if part: jobs.append((kind, part))
    def work(job):
        kind, part = job
        return kind, run_layout(prog, part, kind)
    nbad = {'struct': 0, 'union': 0}; first = {}
    for kind, res in par.pmap(work, jobs):
        for si, (outcome, val) in res.items():
            seq = seqs[si]
            if not any(named for _, _, named, _ in seq):
                continue
            # sequences the language forbids are not layout questions
            size, align, want = layout(seq, kind == 'union')
            ok = False; det = ''
            if outcome == 'return':
                gsize, galign, mem = val
                gm = [(bp, wd) for named, bp, wd in mem if named]
                wm = [w_ for w_ in want if w_ is not None]
                ok = (gsize, galign) == (size, align) and gm == wm
                det = 'sizeof %s _Alignof %s members(bit offset:width) %s; psABI: sizeof %d _Alignof %d members %s' % (gsize, galign, gm, size, align, wm)
            else:
                det = '%s %s' % (outcome, val)
            if ok:
                r.n += 1; r.ok += 1
            else:
                nbad[kind] += 1
                first.setdefault(kind, '%s { %s }: %s' % (kind, fmt(seq), det))
    for kind in ('struct', 'union'):
        if nbad[kind]:
            r.violation('layout:%s' % kind, 'decl.c:addmember', '%d member sequences are laid out differently from the psABI, e.g. %s' % (nbad[kind], first[kind]))
    r.samples.append('%d member sequences (alphabet of %d member forms), structs and unions' % (len(seqs), len(A4)))
    r.exhaustive = (tier == 'thorough')


HUGE = {'C63': (2 ** 63, 1), 'C64m1': (2 ** 64 - 1, 1), 'C64m3': (2 ** 64 - 3, 1), 'L60': (2 ** 63, 8), 'L61m1': (2 ** 64 - 8, 8)}      # char[2^63], char[2^64-1], char[2^64-3], long[2^60], long[2^61-1]


def rule_size_overflow(chk, prog, tier):
    r = chk.rule('C06.h', 'the size of a structure or union never wraps around: when members (with their padding, the bit-field units and the tail padding) add up to 2^64 bytes or more the type is diagnosed, like an array that is too large; '
                 'below that the layout is the exact one', floor=20, oracle='unbounded-integer layout of props/c06.py:layout; C11 5.2.4.1 / 6.5.3.4 (sizeof yields the size in bytes)')
    TY.update(HUGE)
    try:
        def mt(w, ty):
            if ty in HUGE:
                el = 'char' if ty.startswith('C') else 'long'
                n = HUGE[ty][0] // (1 if el == 'char' else 8)
                a = w.it.call('mkarraytype', [w.t(el), 0, n]); return a
            return mtype(w, ty)
        seqs = []
        for a in HUGE:
            for b in ('char', 'int', 'long', 'C63', 'L60', 'C64m3'):
                seqs.append(((a, None, True, 0), (b, None, True, 0)))
                seqs.append(((b, None, True, 0), (a, None, True, 0)))
            seqs.append(((a, None, True, 0),))
            seqs.append(((a, None, True, 0), ('int', 3, True, 0)))
            seqs.append(((a, None, True, 0), ('long', 40, True, 0), ('long', 40, True, 0)))
        seqs = list(dict.fromkeys(seqs))
        for kind in ('struct', 'union'):
            res = run_layout(prog, list(enumerate(seqs)), kind, mtype_fn=mt)
            for si, (outcome, val) in res.items():
                seq = seqs[si]
                size, align, want = layout(seq, kind == 'union')
                key = 'size-overflow:%s { %s }' % (kind, fmt(seq))
                if outcome == 'unsupported': raise AnalysisBroken('%s: %s' % (key, val))
                if size >= 2 ** 64:
                    r.instance(outcome == 'terminal:error', key, 'decl.c:addmember', 'the members need %d bytes (>= 2^64): must be diagnosed; cproc: %s' % (size, 'sizeof %s' % val[0] if outcome == 'return' else outcome))
                else:
                    r.instance(outcome == 'return' and (val[0], val[1]) == (size, align), key, 'decl.c:addmember', 'sizeof %d _Alignof %d expected; cproc: %s %s' % (size, align, outcome, val[:2] if outcome == 'return' else val))
    finally:
        for k in HUGE: TY.pop(k, None)
    r.exhaustive = False


def rule_packed_alignas(chk, prog, tier):
    r = chk.rule('C06.b2', 'packed structs place every member (scalars, arrays, nested structs) at the next byte with alignment 1 and no tail padding; _Alignas(n) on a member raises its alignment and the struct\'s', floor=700,
                 oracle='gcc 12 __attribute__((packed)) / _Alignas member layout (reference validated by tools/validate_c06_ref.py)')
    PLAIN = [a for a in ALPHA if a[1] is None and a[2]]
    words = []
    for n in (1, 2, 3):
        words += [tuple((t, w, nm, 0) for t, w, nm in s_) for s_ in itertools.product(PLAIN, repeat=n)]
    alwords = []
    for n in (1, 2):
        for s_ in itertools.product(PLAIN, repeat=n):
            for als in itertools.product((0, 8, 16, 32), repeat=n):
                if not any(als): continue
                if any(al and al < TY[t][1] for (t, _, _), al in zip(s_, als)): continue     # less strict than the type: a constraint violation
                alwords.append(tuple((t, w, nm, al) for (t, w, nm), al in zip(s_, als)))
    jobs = []
    idx = list(enumerate(words))
    for c in range(16):
        if idx[c::16]: jobs.append(('pack', idx[c::16]))
    idx2 = list(enumerate(alwords))
    for c in range(16):
        if idx2[c::16]: jobs.append(('al', idx2[c::16]))
    def work(job):
        mode, part = job
        return mode, run_layout(prog, part, 'struct', pack=(mode == 'pack'))
    for mode, res in par.pmap(work, jobs):
        for si, (outcome, val) in res.items():
            seq = (words if mode == 'pack' else alwords)[si]
            size, align, want = layout(seq, False, pack=(mode == 'pack'))
            key = 'layout-attr:%sstruct { %s }' % ('packed ' if mode == 'pack' else '', fmt(seq))
            if outcome != 'return':
                r.instance(False, key, 'decl.c:addmember', '%s %s' % (outcome, val)); continue
            gsize, galign, mem = val
            gm = [(bp, wd) for named, bp, wd in mem if named]
            ok = (gsize, galign) == (size, align) and gm == [w_ for w_ in want if w_ is not None]
            r.instance(ok, key, 'decl.c:addmember', 'sizeof %s _Alignof %s members %s; platform compiler: sizeof %d _Alignof %d members %s' % (gsize, galign, gm, size, align, want))
    r.exhaustive = True


def rule_align_pack(chk, prog, tier):
    r = chk.rule('C06.b', '_Alignas on members, packed structs and flexible array members follow the platform compiler', floor=5)
    cases = [
        ('struct', [('char', None, True, 0), ('char', None, True, 16), ('int', None, True, 0)], False, (32, 16, [0, 128, 160])),
        ('struct', [('int', None, True, 8), ('char', None, True, 0), ('short', None, True, 4)], False, (16, 8, [0, 32, 64])),
        ('struct', [('char', None, True, 0), ('long', None, True, 32)], False, (64, 32, [0, 256])),
        ('struct', [('char', None, True, 0), ('int', None, True, 0), ('short', None, True, 0), ('long', None, True, 0)], True, (15, 1, [0, 8, 40, 56])),
        # _Alignas inside a packed struct is honoured, and the size is a multiple of the resulting alignment (values from gcc 12 and clang 14)
        ('struct', [('char', None, True, 0), ('int', None, True, 4), ('char', None, True, 0)], True, (12, 4, [0, 32, 64])),
        ('struct', [('short', None, True, 0), ('char', None, True, 8)], True, (16, 8, [0, 64])),
        ('struct', [('char', None, True, 0), ('long', None, True, 0), ('short', None, True, 0)], True, (11, 1, [0, 8, 72])),
        ('struct', [('long', None, True, 16), ('char', None, True, 0)], True, (16, 16, [0, 64])),
    ]
    for kind, seq, pack, want in cases:
        # the real tagspec() (final rounding included) with the real addmember()
        res = run_layout(prog, [(0, tuple(seq))], kind, pack=pack)[0]
        key = 'layout-attr:%s%s { %s }' % ('packed ' if pack else '', kind, fmt(seq))
        if res[0] != 'return':
            r.instance(False, key, 'decl.c:tagspec', 'valid declaration rejected: %s %s' % res); continue
        size, align, mem = res[1]
        got = (size, align, [bp for named, bp, wd in mem])
        ref = layout(seq, kind == 'union', pack)
        if (ref[0], ref[1], [x[0] for x in ref[2] if x]) != want:
            raise AnalysisBroken('reference layout %s disagrees with the platform values %s for %s' % (ref, want, key))
        r.instance(got == want, key, 'decl.c:tagspec', 'expected (size, align, bit offsets) %s as gcc and clang lay it out, got %s' % (want, got))
    r.exhaustive = False


# ------------------------------------------------------------------ C06.c enum underlying type

INTT = {'char': (1, True), 'schar': (1, True), 'uchar': (1, False), 'short': (2, True), 'ushort': (2, False), 'int': (4, True), 'uint': (4, False),
        'long': (8, True), 'ulong': (8, False), 'llong': (8, True), 'ullong': (8, False)}


def fits(v, size, signed):
    return (-(1 << (size * 8 - 1)) <= v < (1 << (size * 8 - 1))) if signed else (0 <= v < (1 << (size * 8)))


def literal_type(v):
    """type of the constant expression that denotes v (decimal literal / negated literal, u suffix when needed)"""
    for t in ('int', 'long'):
        if fits(v, *INTT[t]): return t
    return 'ulong'


def enum_ref(vals, fixed):
    """vals: list of explicit values or None (previous + 1).  -> ('ok', size, signed, [values]) | ('error',) | ('unjudged',)"""
    cur = -1; out = []
    for v in vals:
        if v is None and cur in (2 ** 63 - 1, 2 ** 64 - 1):
            return ('unjudged',)      # increment past the widest type: gcc rejects, clang warns
        cur = cur + 1 if v is None else v
        out.append(cur)
    if fixed:
        size, signed = INTT[fixed]
        if not all(fits(v, size, signed) for v in out): return ('error',)
        return ('ok', size, signed, out)
    if any(not fits(v, 8, True) and not fits(v, 8, False) for v in out): return ('error',)
    neg = any(v < 0 for v in out)
    for t in (('int', 'long') if neg else ('uint', 'ulong')):
        size, signed = INTT[t]
        if all(fits(v, size, signed) for v in out):
            return ('ok', size, signed, out)
    return ('unjudged',)     # negative values together with values above LONG_MAX: a diagnostic in every compiler, wording differs


def rule_enum(chk, prog, tier):
    r = chk.rule('C06.c', 'the type chosen for an enum is the first of unsigned int / int / unsigned long / long that represents all its enumerators (signed only when one is negative); with a fixed underlying type it is that type and unrepresentable enumerators are diagnosed; enumerator values count up from the previous one',
                 floor=400, oracle='gcc/clang enum representation on LP64 (validated against gcc for the non-fixed case); C23 6.7.2.2')
    fn = prog.require_func('tagspec', 'decl.c')
    B = [0, 1, -1, 127, 128, 255, 256, 0x7fffffff, 0x80000000, -0x80000000, -0x80000001, 0xffffffff, 0x100000000, 2 ** 63 - 1, 2 ** 63, -2 ** 63, 2 ** 64 - 1]
    cases = []
    for a in B:
        cases.append(([a], None)); cases.append(([a, None], None))
        for b in B:
            cases.append(([a, b], None))
            if tier == 'thorough': cases.append(([a, b, None], None)); cases.append(([a, None, b], None))
    # the first enumerator without a value is 0
    cases += [([None], None), ([None, None], None), ([None, -1], None), ([None, 2 ** 63], None)]
    for fx in ('uchar', 'schar', 'short', 'ushort', 'int', 'uint', 'long', 'ulong'):
        cases += [([None], fx), ([None, None], fx), ([None, 5], fx), ([None, None, None], fx)]
        for a in B:
            if fits(a, 8, True) or fits(a, 8, False):
                cases.append(([a], fx)); cases.append(([a, None], fx))
    def work(case):
        vals, fixed = case
        def runner(it):
            w = World(prog, it=it, target='x86_64-sysv')
            toks = ['TENUM']
            if fixed: toks += ['TCOLON', ('TYPE', fixed)]
            toks.append('TLBRACE')
            for i, v in enumerate(vals):
                toks.append('TIDENT')
                if v is not None: toks += ['TASSIGN', ('EXPR', v)]
                toks.append('TCOMMA')
            toks += ['TRBRACE', 'TSEMICOLON']
            tokobj = it.gobj('tok'); st = {'i': 0}; decls = []
            def load():
                t = toks[min(st['i'], len(toks) - 1)]
                tokobj.f[('kind',)] = ev(prog, t if isinstance(t, str) else 'TNUMBER')
                tokobj.f[('lit',)] = Ptr(it.mkstr(list(b'e%d' % st['i']), 'id'), (0,)) if t == 'TIDENT' else None
                tokobj.f[('loc', 'file')] = None; tokobj.f[('loc', 'line')] = 1; tokobj.f[('loc', 'col')] = 1
            def nxt(i2, a, e): st['i'] += 1; load(); return None
            def consume(i2, a, e):
                if tokobj.f[('kind',)] == a[0]:
                    nxt(i2, a, e); return 1
                return 0
            def expect(i2, a, e):
                if tokobj.f[('kind',)] != a[0]:
                    raise Terminal('error', 'expected token')
                nxt(i2, a, e); return None
            def condexpr(i2, a, e):
                t = toks[st['i']]
                assert isinstance(t, tuple) and t[0] == 'EXPR'
                nxt(i2, a, e)
                return w.mkexpr('EXPRCONST', w.t(literal_type(t[1])), u__constant__u=t[1] % 2 ** 64)
            def declspecs(i2, a, e):
                t = toks[st['i']]
                assert isinstance(t, tuple) and t[0] == 'TYPE'
                nxt(i2, a, e)
                return StructVal({('type',): w.t(t[1]), ('qual',): 0, ('expr',): None})
            def putdecl(i2, a, e):
                decls.append(a[1]); return None
            M = {'next': nxt, 'consume': consume, 'expect': expect, 'condexpr': condexpr, 'declspecs': declspecs, 'eval': lambda i2, a, e: a[0],
                 'attr': lambda i2, a, e: 0, 'gnuattr': lambda i2, a, e: 0, 'scopegettag': lambda i2, a, e: None, 'scopeputtag': lambda i2, a, e: None,
                 'scopeputdecl': putdecl, 'mkintconst': lambda i2, a, e: ('const', a[0]),
                 'xmalloc': lambda i2, a, e: Ptr(Obj('heap@%s' % e.get('line'), 'heap'), ()),
                 'error': lambda i2, a, e: (_ for _ in ()).throw(Terminal('error', cmodel.fmt_of(i2, a, 1))),
                 'fatal': lambda i2, a, e: (_ for _ in ()).throw(Terminal('fatal', cmodel.fmt_of(i2, a, 0)))}
            it.models.update(M)
            load()
            t = it.call(fn, [Ptr(Obj('scope', 'heap'), ())])
            size = it.load(t.obj, ('size',)); align = it.load(t.obj, ('align',)); sg = it.load(t.obj, ('u', 'basic', 'issigned'))
            dv = []
            for d in decls:
                dt = it.load(d.obj, ('type',))
                dv.append((it.load(d.obj, ('u', 'enumconst')), it.load(dt.obj, dt.path + ('size',)), it.load(dt.obj, dt.path + ('u', 'basic', 'issigned')), dt.obj is t.obj))
            return size, align, bool(sg), dv
        runs = explore(prog, runner, {}, max_runs=4, on_unsupported='keep')
        if len(runs) != 1:
            return case, ('paths', len(runs)), None
        run = runs[0]
        return case, run.outcome, (run.value if run.outcome == 'return' else run.detail)
    for case, outcome, val in par.pmap(work, cases):
        vals, fixed = case
        key = 'enum:%s{%s}' % (fixed + ':' if fixed else '', ','.join('+1' if v is None else ('%#x' % v if v >= 0 else '-%#x' % -v) for v in vals))
        ref = enum_ref(vals, fixed)
        if ref[0] == 'unjudged':
            continue
        if outcome not in ('return', 'terminal:error'):
            raise AnalysisBroken('tagspec %s: %s %s' % (key, outcome, val))
        if ref[0] == 'error':
            r.instance(outcome == 'terminal:error', key, 'decl.c:tagspec', 'an enumerator is not representable%s and must be diagnosed; cproc accepts it as %s' % (' in the fixed underlying type' if fixed else ' in any integer type', val))
            continue
        _, size, signed, values = ref
        if outcome != 'return':
            r.instance(False, key, 'decl.c:tagspec', 'valid enum (underlying type of size %d, %s) rejected: %s' % (size, 'signed' if signed else 'unsigned', val))
            continue
        gsize, galign, gsigned, dv = val
        gv = [v for v, _, _, _ in dv]
        ok = (gsize, galign, gsigned) == (size, size, signed) and gv == [v % 2 ** 64 for v in values]
        # enumerator types: int when the whole enum fits int, else the enum type (GNU C / C23 6.7.2.2p12-13)
        if ok and not fixed:
            allint = all(fits(v, 4, True) for v in values)
            for (v, dsize, dsigned, isenum) in dv:
                if allint: ok = ok and (dsize, dsigned) == (4, True)
                else: ok = ok and (dsize, dsigned) == (size, signed)
        r.instance(ok, key, 'decl.c:tagspec', 'expected size/align %d %s with enumerator values %s; cproc: size %s align %s %s, enumerators (value, size, signed, has enum type) %s' % (size, 'signed' if signed else 'unsigned', values, gsize, galign, 'signed' if gsigned else 'unsigned', dv))
    r.exhaustive = False


# ------------------------------------------------------------------ C06.d offsetof / member lookup through anonymous members

SC = {'char': (1, 1), 'short': (2, 2), 'int': (4, 4), 'long': (8, 8)}
TREES = [
    ('struct', [('a', 'int'), (None, ('struct', [('b', 'char'), (None, ('union', [('c', 'long'), ('d', 'short')])), ('e', 'int')])), ('f', 'char')]),
    ('struct', [('x', 'char'), ('s', ('array', ('struct', [('p', 'char'), ('q', ('array', 'int', 3)), (None, ('struct', [('r', 'short'), ('t', 'long')]))]), 2)), ('z', 'short')]),
    ('union', [(None, ('struct', [('lo', 'char'), ('hi', 'char')])), ('w', 'short'), (None, ('struct', [('pad', 'int'), (None, ('union', [('u', 'int'), ('v', ('array', 'char', 4))]))]))]),
    ('struct', [('h', 'char'), (None, ('struct', [(None, ('struct', [(None, ('struct', [('deep', 'long')])), ('d2', 'char')])), ('d1', 'short')])), ('n', ('struct', [('in', 'int'), (None, ('union', [('ia', 'char'), ('ib', 'long')]))]))]),
    ('struct', [('m', ('array', ('array', 'short', 3), 2)), (None, ('union', [('k', ('struct', [('k1', 'char'), ('k2', 'int')])), ('l', 'long')]))]),
]


def tsize(t):
    """(size, align) of a descriptor; struct/union descriptors get their member offsets computed on the way"""
    if isinstance(t, str): return SC[t]
    if t[0] == 'array':
        s, a = tsize(t[1]); return s * t[2], a
    kind, mem = t
    pos = 0; al = 1; mx = 0
    for name, mt in mem:
        s, a = tsize(mt)
        if kind == 'struct':
            pos = (pos + a - 1) // a * a; pos += s
        else:
            mx = max(mx, s)
        al = max(al, a)
    size = pos if kind == 'struct' else mx
    return (size + al - 1) // al * al, al


def offsets(t):
    kind, mem = t; pos = 0; out = []
    for name, mt in mem:
        s, a = tsize(mt)
        if kind == 'struct':
            pos = (pos + a - 1) // a * a; out.append(pos); pos += s
        else:
            out.append(0)
    return out


def find(t, name):
    """reference lookup: (offset, member type) of `name` in struct/union t, searching anonymous members in order"""
    for (n, mt), off in zip(t[1], offsets(t)):
        if n == name: return off, mt
        if n is None:
            r = find(mt, name)
            if r: return off + r[0], r[1]
    return None


def paths(t, depth=0):
    """all designator continuations from type t: list of (tokens, offset)"""
    out = [([], 0)]
    if depth > 5: return out
    if isinstance(t, str): return out
    if t[0] == 'array':
        es = tsize(t[1])[0]
        for i in sorted({0, t[2] - 1}):
            for toks, off in paths(t[1], depth + 1):
                out.append(([('[', i)] + toks, i * es + off))
        return out
    def names(u):
        for n, mt in u[1]:
            if n is None: yield from names(mt)
            else: yield n
    for n in names(t):
        off, mt = find(t, n)
        for toks, o2 in paths(mt, depth + 1):
            out.append(([('.', n)] + toks, off + o2))
    return out


def rule_offsetof(chk, prog, tier):
    r = chk.rule('C06.d', '__builtin_offsetof(T, designator) is the sum of the member offsets along the designator, looking through anonymous struct/union members and array indices', floor=50,
                 oracle='C11 6.7.2.1p13 (anonymous members), 7.19p3 (offsetof)')
    fn = prog.require_func('builtinfunc', 'expr.c')
    jobs = []
    for ti, tree in enumerate(TREES):
        def names(u):
            for n, mt in u[1]:
                if n is None: yield from names(mt)
                else: yield n
        for n in names(tree):
            off, mt = find(tree, n)
            for toks, o2 in paths(mt):
                jobs.append((ti, [('.', n)] + toks, off + o2))
        jobs.append((ti, [('.', 'nosuch')], None))
    def work(job):
        ti, toks, want = job
        def runner(it):
            w = World(prog, it=it, target='x86_64-sysv')
            def build(t):
                if isinstance(t, str): return w.t(t)
                if t[0] == 'array': return it.call('mkarraytype', [build(t[1]), 0, t[2]])
                size, align = tsize(t)
                ty = w.mkstruct(size=size, align=align, kind='TYPESTRUCT' if t[0] == 'struct' else 'TYPEUNION')
                prev = None
                for (n, mt), off in zip(t[1], offsets(t)):
                    m = Obj('member:%s' % n, 'heap')
                    m.f[('name',)] = Ptr(it.mkstr(list(n.encode()), n), (0,)) if n else None
                    m.f[('type',)] = build(mt); m.f[('qual',)] = 0; m.f[('offset',)] = off
                    m.f[('bits', 'before')] = 0; m.f[('bits', 'after')] = 0; m.f[('next',)] = None
                    if prev is None: ty.obj.f[('u', 'structunion', 'members')] = Ptr(m, ())
                    else: prev.f[('next',)] = Ptr(m, ())
                    prev = m
                return ty
            root = build(TREES[ti])
            stream = [('TIDENT', toks[0][1])]
            for k, v in toks[1:]:
                if k == '.': stream += [('TPERIOD', None), ('TIDENT', v)]
                else: stream += [('TLBRACK', None), ('EXPR', v), ('TRBRACK', None)]
            stream.append(('TRPAREN', None))
            tokobj = it.gobj('tok'); st = {'i': 0}
            def load():
                k, v = stream[min(st['i'], len(stream) - 1)]
                tokobj.f[('kind',)] = ev(prog, 'TNUMBER' if k == 'EXPR' else k)
                tokobj.f[('lit',)] = Ptr(it.mkstr(list(v.encode()), v), (0,)) if k == 'TIDENT' else None
                tokobj.f[('loc', 'file')] = None; tokobj.f[('loc', 'line')] = 1; tokobj.f[('loc', 'col')] = 1
            def nxt(i2, a, e): st['i'] += 1; load(); return None
            def expect(i2, a, e):
                if a[0] == ev(prog, 'TCOMMA'): return None      # the comma after the type name is not part of the script
                if tokobj.f[('kind',)] != a[0]: raise Terminal('error', 'expected token')
                lit = tokobj.f[('lit',)]; nxt(i2, a, e); return lit
            def ice(i2, a, e):
                k, v = stream[st['i']]; assert k == 'EXPR'; nxt(i2, a, e); return v
            it.models.update({'next': nxt, 'expect': expect, 'intconstexpr': ice, 'free': lambda i2, a, e: None,
                              'typename': lambda i2, a, e: root, 'mkconstexpr': lambda i2, a, e: ('const', a[0], a[1]),
                              'xmalloc': lambda i2, a, e: Ptr(Obj('heap@%s' % e.get('line'), 'heap'), ()),
                              'error': lambda i2, a, e: (_ for _ in ()).throw(Terminal('error', cmodel.fmt_of(i2, a, 1))),
                              'fatal': lambda i2, a, e: (_ for _ in ()).throw(Terminal('fatal', cmodel.fmt_of(i2, a, 0)))})
            load()
            res = it.call(fn, [Ptr(Obj('scope', 'heap'), ()), ev(prog, 'BUILTINOFFSETOF')])
            return res
        runs = explore(prog, runner, {}, max_runs=4, on_unsupported='keep')
        if len(runs) != 1: return job, 'paths', len(runs)
        return job, runs[0].outcome, (runs[0].value if runs[0].outcome == 'return' else runs[0].detail)
    for (ti, toks, want), outcome, val in par.pmap(work, jobs):
        key = 'offsetof:T%d,%s' % (ti, ''.join('.%s' % v if k == '.' else '[%d]' % v for k, v in toks)[1:])
        if outcome not in ('return', 'terminal:error'):
            raise AnalysisBroken('builtinfunc %s: %s %s' % (key, outcome, val))
        if want is None:
            r.instance(outcome == 'terminal:error', key, 'expr.c:builtinfunc', 'no such member: must be diagnosed, got %s' % (val,))
            continue
        got = val[2] if outcome == 'return' and isinstance(val, tuple) else None
        r.instance(got == want, key, 'expr.c:builtinfunc', 'expected offset %d, cproc computes %s' % (want, val))
    r.exhaustive = False


# ------------------------------------------------------------------ C06.e array types

def array_type(prog, it, w, el, dims, vla=(), star=()):
    """the type the real declarator() builds for `el a[d0][d1]...`: declaratortypes is replaced by a model that links one array type per dimension (what it does for `[n]` suffixes);
    a dimension listed in `vla` gets a non-constant length expression"""
    fn = prog.require_func('declarator', 'decl.c')
    base = StructVal({('type',): mtype(w, el), ('qual',): 0, ('expr',): None})
    def dtypes(i2, a, e):
        result = a[1]
        for k, n in enumerate(dims):
            t = i2.call('mkarraytype', [None, 0, 0])
            ty = w.t('int') if -2 ** 31 <= n < 2 ** 31 else (w.t('long') if n < 2 ** 63 else w.t('ulong'))
            if k in star:
                # `[*]`: what declaratortypes leaves behind - variably modified, complete, no length expression
                t.obj.f[('prop',)] = (i2.load(t.obj, ('prop',)) or 0) | ev(prog, 'PROPVM')
            elif k in vla:
                t.obj.f[('u', 'array', 'length')] = w.mkexpr('EXPRIDENT', ty)
            else:
                t.obj.f[('u', 'array', 'length')] = w.mkexpr('EXPRCONST', ty, u__constant__u=n % 2 ** 64)
            t.obj.f[('incomplete',)] = 0
            prev = i2.load(result.obj, result.path + ('prev',))
            i2.call('listinsert', [prev, Ptr(t.obj, ('link',))])
        return None
    it.models.update({'declaratortypes': dtypes, 'eval': lambda i2, a, e: a[0],
                      'xmalloc': lambda i2, a, e: Ptr(Obj('heap@%s' % e.get('line'), 'heap'), ()),
                      'error': lambda i2, a, e: (_ for _ in ()).throw(Terminal('error', cmodel.fmt_of(i2, a, 1))),
                      'fatal': lambda i2, a, e: (_ for _ in ()).throw(Terminal('fatal', cmodel.fmt_of(i2, a, 0)))})
    tokobj = it.gobj('tok'); tokobj.f[('loc', 'file')] = None; tokobj.f[('loc', 'line')] = 1; tokobj.f[('loc', 'col')] = 1
    res = it.call(fn, [Ptr(Obj('scope', 'heap'), ()), base, None, None, 1])
    return res.f[('type',)]


def rule_arrays(chk, prog, tier):
    r = chk.rule('C06.e', 'an array type T[n] (possibly multi-dimensional) has size n*sizeof(T) and the alignment of T; a negative length, or a size that does not fit the size type, is diagnosed rather than wrapped', floor=100,
                 oracle='C11 6.7.6.2p1, 6.5.3.4')
    ELEM = {'char': (1, 1), 'short': (2, 2), 'int': (4, 4), 'long': (8, 8), 'ldouble': (16, 16), 'S12': (12, 4)}
    LENS = [0, 1, 2, 3, 7, 255, 65536, 2 ** 31, 2 ** 32 + 1, 2 ** 60, 2 ** 61, 2 ** 62, 2 ** 63 - 1, 2 ** 63, 2 ** 64 - 1, -1, -2 ** 31]
    jobs = []
    for el in ELEM:
        for n in LENS:
            jobs.append((el, (n,)))
        for n, m in ((2, 3), (0, 3), (3, 0), (3, 2 ** 31), (2 ** 32, 2 ** 32), (2 ** 31, 2 ** 31), (2 ** 33, 2 ** 30), (5, 2 ** 62), (2 ** 62, 5), (1, 2 ** 64 - 1)):
            jobs.append((el, (n, m)))
    def work(job):
        el, dims = job
        def runner(it):
            w = World(prog, it=it, target='x86_64-sysv')
            t = array_type(prog, it, w, el, dims)
            out = []
            while it.load(t.obj, t.path + ('kind',)) == ev(prog, 'TYPEARRAY'):
                out.append((it.load(t.obj, t.path + ('size',)), it.load(t.obj, t.path + ('align',)), bool(it.load(t.obj, t.path + ('prop',)) & ev(prog, 'PROPVM'))))
                t = it.load(t.obj, t.path + ('base',))
            return out
        runs = explore(prog, runner, {}, max_runs=4, on_unsupported='keep')
        if len(runs) != 1: return job, 'paths', len(runs)
        return job, runs[0].outcome, (runs[0].value if runs[0].outcome == 'return' else runs[0].detail)
    for (el, dims), outcome, val in par.pmap(work, jobs):
        key = 'array:%s%s' % (el, ''.join('[%d]' % n if abs(n) < 2 ** 20 else '[%#x]' % n for n in dims))
        if outcome not in ('return', 'terminal:error'):
            raise AnalysisBroken('declarator %s: %s %s' % (key, outcome, val))
        es, ea = ELEM[el]
        # `T a[n][m]`: the first listed dimension is the outermost
        want = []; size = es; bad = False
        for n in reversed(dims):
            if n < 0: bad = True; break
            size *= n                             # a length of zero is the GNU zero-length array: size 0, not a variable-length array
            if size >= 2 ** 64: bad = True; break
            want.insert(0, (size, ea, False))
        if bad:
            r.instance(outcome == 'terminal:error', key, 'decl.c:declarator', 'negative or unrepresentable array size must be diagnosed; cproc yields (size, align) %s' % (val,))
        else:
            r.instance(outcome == 'return' and val == want, key, 'decl.c:declarator', 'expected (size, align, variably modified) per dimension %s, cproc %s %s' % (want, outcome, val))
    r.exhaustive = False


# ------------------------------------------------------------------ C06.f alignment specifiers and attributes

def rule_alignspec(chk, prog, tier):
    r = chk.rule('C06.f', '_Alignas(n) / _Alignas(type) and __attribute__((aligned(n)|aligned|packed)) are evaluated as the platform compiler does: n must be a power of two (0 has no effect for _Alignas), the strictest specifier wins, aligned without argument means 16, spellings with __x__ are the same attribute, unsupported placements are diagnosed',
                 floor=60, oracle='C11 6.7.5; GCC manual "Common Variable Attributes"; x86-64 __BIGGEST_ALIGNMENT__ = 16')
    ds = prog.require_func('declspecs', 'decl.c')
    pa = prog.require_func('parseattr', 'attr.c')
    def cursor(it, toks):
        tokobj = it.gobj('tok'); st = {'i': 0}
        def load():
            k, v = toks[min(st['i'], len(toks) - 1)]
            tokobj.f[('kind',)] = ev(prog, 'TNUMBER' if k in ('ICE', 'TYPE') else k)
            if k == 'TIDENT':
                so = it.mkstr(list(v.encode()), v); so.writable = True
                tokobj.f[('lit',)] = Ptr(so, (0,))
            else: tokobj.f[('lit',)] = None
            tokobj.f[('loc', 'file')] = None; tokobj.f[('loc', 'line')] = 1; tokobj.f[('loc', 'col')] = 1
        def nxt(i2, a, e): st['i'] += 1; load(); return None
        def consume(i2, a, e):
            if tokobj.f[('kind',)] == a[0] and toks[min(st['i'], len(toks) - 1)][0] not in ('ICE', 'TYPE'): nxt(i2, a, e); return 1
            return 0
        def expect(i2, a, e):
            if tokobj.f[('kind',)] != a[0] or toks[min(st['i'], len(toks) - 1)][0] in ('ICE', 'TYPE'): raise Terminal('error', 'expected token')
            lit = tokobj.f[('lit',)]; nxt(i2, a, e); return lit
        def ice(i2, a, e):
            k, v = toks[st['i']]
            if k != 'ICE': raise Terminal('error', 'expected constant expression')
            nxt(i2, a, e); return v
        it.models.update({'next': nxt, 'consume': consume, 'expect': expect, 'intconstexpr': ice,
                          'error': lambda i2, a, e: (_ for _ in ()).throw(Terminal('error', cmodel.fmt_of(i2, a, 1))),
                          'fatal': lambda i2, a, e: (_ for _ in ()).throw(Terminal('fatal', cmodel.fmt_of(i2, a, 0)))})
        load()
        return st
    # ---- _Alignas in declaration specifiers
    NS = [0, 1, 2, 3, 4, 6, 8, 16, 24, 64, 4096, 2 ** 30, 2 ** 31, 2 ** 31 + 1, 2 ** 32, 2 ** 63]
    cases = [([('ICE', n)], n) for n in NS] + [([('TYPE', t)], t) for t in ('char', 'int', 'long', 'ldouble', 'S12', 'A3', 'S16')]
    cases += [([('ICE', a)], [('ICE', b)]) for a in (0, 4, 16) for b in (0, 8, 32)]
    # the strictest of several specifiers wins whatever their form and order: expression then type, type then expression, two types
    cases += [([('ICE', a)], [('TYPE', t)]) for a in (0, 2, 16) for t in ('char', 'int', 'S16')]
    cases += [([('TYPE', t)], [('ICE', a)]) for a in (0, 2, 16) for t in ('char', 'int', 'S16')]
    cases += [([('TYPE', t)], [('TYPE', t2)]) for t in ('char', 'long', 'S16') for t2 in ('char', 'int', 'ldouble')]
    for c in cases:
        specs = [c[0]] if not isinstance(c[1], list) else [c[0], c[1]]
        def runner(it):
            w = World(prog, it=it, target='x86_64-sysv')
            toks = []
            for sp in specs:
                toks += [('TALIGNAS', None), ('TLPAREN', None), sp[0], ('TRPAREN', None)]
            toks += [('TINT', None), ('TIDENT', 'x'), ('TSEMICOLON', None)]
            st = cursor(it, toks)
            def typename(i2, a, e):
                k, v = toks[st['i']]
                if k != 'TYPE': return None
                st['i'] += 1
                tokobj = i2.gobj('tok'); k2, v2 = toks[st['i']]; tokobj.f[('kind',)] = ev(prog, k2)
                return mtype(w, v)
            it.models.update({'typename': typename, 'attr': lambda i2, a, e: 0, 'gnuattr': lambda i2, a, e: 0})
            al = Obj('align', 'local'); al.f[()] = UNINIT
            sc = Obj('sc', 'local'); sc.f[()] = UNINIT
            qt = it.call(ds, [Ptr(Obj('scope', 'heap'), ()), Ptr(sc, ()), None, Ptr(al, ())])
            return al.f[()], qt.f[('type',)].obj is w.t('int').obj
        runs = explore(prog, runner, {}, max_runs=4, on_unsupported='keep')
        if len(runs) != 1 or runs[0].outcome == 'unsupported':
            raise AnalysisBroken('declspecs alignas %s: %s' % (c, runs[0].detail if runs else 'no run'))
        run = runs[0]
        vals = []
        for sp in specs:
            k, v = sp[0]
            vals.append(v if k == 'ICE' else TY[v][1])
        key = 'alignas:%s' % ','.join(str(sp[0][1]) for sp in specs)
        bad = any(v & (v - 1) or v > 2 ** 31 - 1 for v in vals)
        if bad:
            r.instance(run.outcome == 'terminal:error', key, 'decl.c:declspecs', 'an alignment that is not a power of two (or does not fit int) must be diagnosed; got %s' % (run.value if run.outcome == 'return' else run.outcome,))
        else:
            r.instance(run.outcome == 'return' and run.value == (max(vals), True), key, 'decl.c:declspecs', 'expected alignment %d; got %s %s' % (max(vals), run.outcome, run.value if run.outcome == 'return' else run.detail))
    # ---- GNU attributes
    AL, PK = ev(prog, 'ATTRALIGNED'), ev(prog, 'ATTRPACKED')
    acases = []
    for name in ('aligned', '__aligned__'):
        for n in (None, 1, 2, 8, 16, 64, 2 ** 30, 0, 3, 12, 2 ** 31, 2 ** 32):
            acases.append((name, n, AL | PK))
    for name in ('packed', '__packed__'):
        acases.append((name, None, AL | PK)); acases.append((name, None, AL)); acases.append((name, None, 0))
    acases.append(('aligned', 8, PK)); acases.append(('aligned', 8, 0))
    acases.append(('unknownattr', None, AL | PK)); acases.append(('__noreturn__', None, 0))
    # C23 [[prefix::name]] spellings: the prefix is read by parseattr itself (prefix argument 0)
    for pfx in ('gnu', '__gnu__'):
        for name in ('packed', '__packed__'):
            acases.append((pfx + '::' + name, None, AL | PK))
        for name in ('aligned', '__aligned__'):
            acases.append((pfx + '::' + name, 8, AL | PK)); acases.append((pfx + '::' + name, None, AL | PK))
    acases.append(('vendor::packed', None, AL | PK)); acases.append(('::packed', None, AL | PK)); acases.append(('::deprecated', None, AL | PK))
    for name, n, allowed in acases:
        pfx = None
        if '::' in name:
            pfx, name = name.split('::')
        def runner(it):
            toks = ([('TIDENT', pfx), ('TCOLONCOLON', None)] if pfx else []) + [('TIDENT', name)] + ([('TLPAREN', None), ('ICE', n), ('TRPAREN', None)] if n is not None else []) + [('TRBRACK', None)]
            st = cursor(it, toks)
            a = Obj('attr', 'local'); a.f[('kind',)] = 0; a.f[('align',)] = 0
            ok = it.call(pa, [Ptr(a, ()), allowed, ev(prog, 'PREFIXGNU') if pfx is None else 0])
            return ok, a.f[('kind',)], a.f[('align',)], st['i'] - (2 if pfx else 0)
        runs = explore(prog, runner, {}, max_runs=4, on_unsupported='keep')
        if len(runs) != 1 or runs[0].outcome == 'unsupported':
            raise AnalysisBroken('parseattr %s: %s' % (name, runs[0].detail if runs else 'no run'))
        run = runs[0]
        base = name.strip('_')
        if pfx is not None and pfx.strip('_') != 'gnu': base = 'ignored'      # unknown vendor prefix or a standard attribute: skipped
        key = 'gnuattr:%s%s%s,allowed=%d' % (pfx + '::' if pfx is not None else '', name, '' if n is None else '(%d)' % n, allowed)
        ntok = 1 + (3 if n is not None else 0)
        if base == 'aligned':
            badn = n is not None and (n == 0 or n & (n - 1) or n > 2 ** 31 - 1)
            if badn or not (allowed & AL):
                r.instance(run.outcome == 'terminal:error', key, 'attr.c:parseattr', 'must be diagnosed (%s); got %s' % ('invalid alignment' if badn else 'attribute not supported here', run.value if run.outcome == 'return' else run.outcome))
            else:
                r.instance(run.outcome == 'return' and run.value == (1, AL, n if n is not None else 16, ntok), key, 'attr.c:parseattr', 'expected aligned with alignment %s; got %s' % (n if n is not None else 16, run.value if run.outcome == 'return' else run.outcome))
        elif base == 'packed':
            if not (allowed & PK):
                r.instance(run.outcome == 'terminal:error', key, 'attr.c:parseattr', 'packed is not supported here and must be diagnosed; got %s' % (run.value if run.outcome == 'return' else run.outcome,))
            else:
                r.instance(run.outcome == 'return' and run.value[:2] == (1, PK) and run.value[3] == ntok, key, 'attr.c:parseattr', 'expected packed; got %s' % (run.value if run.outcome == 'return' else run.outcome,))
        else:
            r.instance(run.outcome == 'return' and run.value[:2] == (1, 0) and run.value[3] == ntok, key, 'attr.c:parseattr', 'an unknown attribute is skipped without effect; got %s' % (run.value if run.outcome == 'return' else run.outcome,))
    r.exhaustive = False


# ------------------------------------------------------------------ C06.g member access

def rule_member_access(chk, prog, tier):
    r = chk.rule('C06.g', 's.m and p->m designate the storage at the member\'s offset (through anonymous members), with the member\'s type, and carry the bit-field position of m: the expression built is *(T *)((char *)&s + offsetof(S, m)) [bits]',
                 floor=30, oracle='C11 6.5.2.3; offsets as decided by C06.a/d')
    pf = prog.require_func('postfixexpr', 'expr.c')
    jobs = []
    for ti, tree in enumerate(TREES):
        def names(u, pre=0):
            for (n, mt), off in zip(u[1], offsets(u)):
                if n is None: yield from names(mt, pre + off)
                else: yield n, pre + off, mt
        for n, off, mt in names(tree):
            for access in ('TPERIOD', 'TARROW'):
                jobs.append((ti, n, off, mt, access, None))
    # bit-fields: struct { unsigned a:3, b:5; unsigned :0; unsigned c:9; int d; }
    BF = [('a', 0, 0, 29), ('b', 0, 3, 24), ('c', 4, 0, 23), ('d', 8, 0, 0)]
    for n, off, bb, ba in BF:
        for access in ('TPERIOD', 'TARROW'):
            jobs.append(('bf', n, off, 'int', access, (bb, ba)))
    for ti, n, off, mt, access, bits in jobs:
        def runner(it):
            w = World(prog, it=it, target='x86_64-sysv')
            def build(t):
                if isinstance(t, str): return w.t(t)
                if t[0] == 'array': return it.call('mkarraytype', [build(t[1]), 0, t[2]])
                size, align = tsize(t)
                ty = w.mkstruct(size=size, align=align, kind='TYPESTRUCT' if t[0] == 'struct' else 'TYPEUNION')
                prev = None
                for (mn, mty), o in zip(t[1], offsets(t)):
                    m = Obj('member:%s' % mn, 'heap')
                    m.f.update({('name',): Ptr(it.mkstr(list(mn.encode()), mn), (0,)) if mn else None, ('type',): build(mty), ('qual',): 0, ('offset',): o,
                                ('bits', 'before'): 0, ('bits', 'after'): 0, ('bitfield',): 0, ('next',): None})
                    if prev is None: ty.obj.f[('u', 'structunion', 'members')] = Ptr(m, ())
                    else: prev.f[('next',)] = Ptr(m, ())
                    prev = m
                return ty
            if ti == 'bf':
                st = w.mkstruct(size=12, align=4); prev = None
                for mn, o, bb, ba in BF:
                    m = Obj('member:%s' % mn, 'heap')
                    m.f.update({('name',): Ptr(it.mkstr(list(mn.encode()), mn), (0,)), ('type',): w.t('uint' if mn != 'd' else 'int'), ('qual',): 0, ('offset',): o,
                                ('bits', 'before'): bb, ('bits', 'after'): ba, ('bitfield',): int(mn != 'd'), ('next',): None})
                    if prev is None: st.obj.f[('u', 'structunion', 'members')] = Ptr(m, ())
                    else: prev.f[('next',)] = Ptr(m, ())
                    prev = m
            else:
                st = build(TREES[ti])
            if access == 'TPERIOD':
                base = w.temp(st, 's'); base.obj.f[('lvalue',)] = 1
            else:
                base = w.temp(w.mkptr(st, 0), 'p')
            seq = [access, 'TIDENT', 'TSEMICOLON']; stt = {'i': 0}
            tokobj = it.gobj('tok')
            def load():
                k = seq[min(stt['i'], len(seq) - 1)]
                tokobj.f[('kind',)] = ev(prog, k)
                tokobj.f[('lit',)] = Ptr(it.mkstr(list(n.encode()), n), (0,)) if k == 'TIDENT' else None
                tokobj.f[('loc', 'file')] = None; tokobj.f[('loc', 'line')] = 1; tokobj.f[('loc', 'col')] = 1
            it.models.update({'next': lambda i2, a, e: (stt.__setitem__('i', stt['i'] + 1), load(), None)[2], 'free': lambda i2, a, e: None,
                              'xmalloc': lambda i2, a, e: Ptr(Obj('heap@%s' % e.get('line'), 'heap'), ()),
                              'error': lambda i2, a, e: (_ for _ in ()).throw(Terminal('error', cmodel.fmt_of(i2, a, 1))),
                              'fatal': lambda i2, a, e: (_ for _ in ()).throw(Terminal('fatal', cmodel.fmt_of(i2, a, 0)))})
            load()
            e = it.call(pf, [Ptr(Obj('scope', 'heap'), ()), base])
            K = lambda x: it.load(x.obj, ('kind',))
            gb = None
            if K(e) == ev(prog, 'EXPRBITFIELD'):
                gb = (it.load(e.obj, ('u', 'bitfield', 'bits', 'before')), it.load(e.obj, ('u', 'bitfield', 'bits', 'after')))
                e = it.load(e.obj, ('base',))
            # an array member decays: look through the decay node
            if K(e) == ev(prog, 'EXPRUNARY') and it.load(e.obj, ('op',)) == ev(prog, 'TBAND') and it.load(e.obj, ('decayed',)):
                e = it.load(e.obj, ('base',))
            if not (K(e) == ev(prog, 'EXPRUNARY') and it.load(e.obj, ('op',)) == ev(prog, 'TMUL')): return ('shape', 'not an indirection', gb)
            ety = it.load(e.obj, ('type',))
            add = it.load(e.obj, ('base',))
            if not (K(add) == ev(prog, 'EXPRBINARY') and it.load(add.obj, ('op',)) == ev(prog, 'TADD')): return ('shape', 'no base + offset', gb)
            rr = it.load(add.obj, ('u', 'binary', 'r')); ll = it.load(add.obj, ('u', 'binary', 'l'))
            if K(rr) != ev(prog, 'EXPRCONST'): return ('shape', 'offset is not a constant', gb)
            while K(ll) == ev(prog, 'EXPRCAST'): ll = it.load(ll.obj, ('base',))
            if access == 'TPERIOD':
                okbase = K(ll) == ev(prog, 'EXPRUNARY') and it.load(ll.obj, ('op',)) == ev(prog, 'TBAND') and it.load(ll.obj, ('base',)).obj is base.obj
            else:
                okbase = ll.obj is base.obj
            return ('ok' if okbase else 'shape', it.load(rr.obj, ('u', 'constant', 'u')), gb, it.load(ety.obj, ety.path + ('size',)))
        runs = explore(prog, runner, {}, max_runs=4, on_unsupported='keep')
        if len(runs) != 1 or runs[0].outcome != 'return':
            raise AnalysisBroken('postfixexpr %s.%s: %s %s' % (ti, n, runs[0].outcome if runs else '?', runs[0].detail if runs else ''))
        v = runs[0].value
        want_size = 4 if ti == 'bf' else tsize(mt)[0]
        ok = v[0] == 'ok' and v[1] == off and v[2] == (bits if bits and any(bits) else None) and v[3] == want_size
        r.instance(ok, 'member-access:T%s%s%s' % (ti, '.' if access == 'TPERIOD' else '->', n), 'expr.c:%s' % pf.get('line'),
                   'expected storage at offset %d of size %d, bits %s; got %s' % (off, want_size, bits, v))
    r.exhaustive = False


def run(chk, tier):
    prog = facts.programs()['cproc-qbe']
    chk.guard('C06.a', lambda: rule_layout(chk, prog, tier))
    chk.guard('C06.b', lambda: rule_align_pack(chk, prog, tier))
    chk.guard('C06.b2', lambda: rule_packed_alignas(chk, prog, tier))
    chk.guard('C06.c', lambda: rule_enum(chk, prog, tier))
    chk.guard('C06.d', lambda: rule_offsetof(chk, prog, tier))
    chk.guard('C06.e', lambda: rule_arrays(chk, prog, tier))
    chk.guard('C06.f', lambda: rule_alignspec(chk, prog, tier))
    chk.guard('C06.g', lambda: rule_member_access(chk, prog, tier))
    chk.guard('C06.h', lambda: rule_size_overflow(chk, prog, tier))
