"""C14 - character and string literals.

C14.c  UTF-8 decoder acceptance set per sequence length (interval-set abstract interpretation of utf.c:utf8dec
       over four unknown bytes) vs Unicode Table 3-7 (scalar values, shortest form)
C14.d  UTF-8 / UTF-16 encoders: range dispatch by interval analysis, output code units as symbolic terms evaluated
       over each range (quick: boundaries + bit probes + stride; thorough: every code point); every value the decoder
       accepts is handled (no assert)
C14.a  escape handling: lexer's accepted escape introducers (scan.c:escape over all 257 characters), the decoder's
       simple-escape values, octal/hex digit predicates of lexer and decoder agree with C11 6.4.4.4
C14.s  stringconcat: element type by prefix (incl. mixed prefixes), code units and length for pieces built from
       1-4 byte characters and numeric escapes, vs C11 6.4.5
C14.g  character constants: type by prefix and value (plain constants valued as `char` per target)
"""
import facts
from facts import AnalysisBroken
from eai import Interp, Obj, Ptr, Sym, SV, Terminal, Unsupported, StructVal, explore, read_cstr, WidePtr
from ivl import IvInterp, ISym, IS, Term, teval
import cmodel
from cmodel import World, ev

TECHNIQUE = 'interval-set abstract interpretation of utf.c (exact accepted/encoded sets), finite-domain interpretation of the escape scanner, and E-AI tables of stringconcat/primaryexpr over literal classes, compared with Unicode ch.3 and C11 6.4.4.4/6.4.5'

SCALARS = {1: IS([(0, 0x7f)]), 2: IS([(0x80, 0x7ff)]), 3: IS([(0x800, 0xd7ff), (0xe000, 0xffff)]), 4: IS([(0x10000, 0x10ffff)])}
ALLSCALAR = IS([(0, 0xd7ff), (0xe000, 0x10ffff)])


def rule_utf8dec(chk, prog, tier):
    r = chk.rule('C14.c', 'utf8dec accepts, per sequence length, exactly the Unicode scalar values whose shortest form has that length (no overlong forms, no surrogates, nothing above U+10FFFF)',
                 floor=17, oracle='Unicode 15 Table 3-7 / DESIGN A.8')
    fn = prog.require_func('utf8dec')
    def runner(it):
        buf = Obj('bytes', 'heap')
        syms = [Sym('b%d' % i, range(256)) for i in range(4)]
        for i, s in enumerate(syms): buf.f[(i,)] = s
        c = Obj('c', 'heap')
        l = it.call(fn, [Ptr(c, ()), Ptr(buf, (0,)), 4])
        return l, c.f.get(()), [s.dom for s in syms]
    runs = explore(prog, runner, {}, cls=IvInterp, max_runs=5000)
    acc = {}
    lead = {}
    for run in runs:
        if run.outcome != 'return':
            raise AnalysisBroken('utf8dec: %s %s' % (run.outcome, run.detail))
        l, cv, doms = run.value
        if l == 2 ** 64 - 1:
            continue
        img = run.interp.image(cv) if not isinstance(cv, int) else IS([(cv, cv)])
        acc[l] = acc.get(l, IS()).union(img)
    where = 'utf.c:%s' % fn.get('line')
    for l in (1, 2, 3, 4):
        got = acc.get(l, IS())
        want = SCALARS[l]
        extra = got.subtract(want); missing = want.subtract(got)
        r.instance(not extra and not missing, 'utf8dec:length=%d' % l, where,
                   'accepted code points %r; Unicode requires %r (wrongly accepted: %r, wrongly rejected: %r)' % (got, want, extra, missing),
                   sample='length %d -> %r' % (l, got))
    for l in acc:
        if l not in (1, 2, 3, 4):
            r.violation('utf8dec:length=%s' % l, where, 'decoder reports a sequence length of %s' % l)
    # per lead byte: the sequences starting with it decode to exactly the scalars whose UTF-8 form starts with it (the decoder is the inverse of the encoding, not just onto the right set)
    def lead_want(b0):
        out = {}
        for lo, hi in ((0, 0xd7ff), (0xe000, 0x10ffff)):
            # encodings are monotone in the code point: the scalars with a given first byte form one interval per range
            cs = [c for c in (lo, hi)]
            for l, (a, b) in ((1, (0, 0x7f)), (2, (0x80, 0x7ff)), (3, (0x800, 0xffff)), (4, (0x10000, 0x10ffff))):
                a2, b2 = max(a, lo), min(b, hi)
                if a2 > b2: continue
                shift = 6 * (l - 1)
                first = lambda c: c if l == 1 else ((0xc0, 0xe0, 0xf0)[l - 2] | c >> shift)
                if first(a2) > b0 or first(b2) < b0: continue
                x0 = max(a2, ((b0 & (0x7f, 0x1f, 0x0f, 0x07)[l - 1]) << shift)); x1 = min(b2, x0 | (1 << shift) - 1)
                if first(x0) != b0: continue
                out[l] = out.get(l, IS()).union(IS([(x0, x1)]))
        return out
    GROUPS = [(0, 0x7f), (0x80, 0xbf), (0xc0, 0xc1), (0xc2, 0xdf), (0xe0, 0xe0), (0xe1, 0xec), (0xed, 0xed), (0xee, 0xef), (0xf0, 0xf0), (0xf1, 0xf3), (0xf4, 0xf4), (0xf5, 0xf7), (0xf8, 0xff)]
    for glo, ghi in GROUPS:
        badl = []
        for b0 in range(glo, ghi + 1):
            def runner1(it, b0=b0):
                buf = Obj('bytes', 'heap'); buf.f[(0,)] = b0
                for i in range(1, 4): buf.f[(i,)] = Sym('b%d' % i, range(256))
                c = Obj('c', 'heap')
                l = it.call(fn, [Ptr(c, ()), Ptr(buf, (0,)), 4])
                return l, c.f.get(())
            got = {}
            for run in explore(prog, runner1, {}, cls=IvInterp, max_runs=5000):
                if run.outcome != 'return':
                    raise AnalysisBroken('utf8dec lead %#x: %s %s' % (b0, run.outcome, run.detail))
                l, cv = run.value
                if l == 2 ** 64 - 1: continue
                img = run.interp.image(cv) if not isinstance(cv, int) else IS([(cv, cv)])
                got[l] = got.get(l, IS()).union(img)
            want = lead_want(b0)
            if set(got) != set(want) or any(got[l].subtract(want[l]) or want[l].subtract(got[l]) for l in want):
                badl.append('%#x: decodes %r, UTF-8 gives %r' % (b0, got, want))
        r.instance(not badl, 'utf8dec:lead=%#x..%#x' % (glo, ghi), where, '; '.join(badl[:3]))
    # truncated input: n smaller than the sequence length must be rejected
    def runner2(it):
        buf = Obj('bytes', 'heap')
        b0 = Sym('b0', range(256)); buf.f[(0,)] = b0
        for i in range(1, 4): buf.f[(i,)] = Sym('b%d' % i, range(0x80, 0xc0))
        n = Sym('n', [1, 2, 3])
        c = Obj('c', 'heap')
        l = it.call(fn, [Ptr(c, ()), Ptr(buf, (0,)), n])
        return l, n.dom
    bad = []
    for run in explore(prog, runner2, {}, cls=IvInterp, max_runs=5000):
        if run.outcome != 'return':
            raise AnalysisBroken('utf8dec(n): %s %s' % (run.outcome, run.detail))
        l, nd = run.value
        if l != 2 ** 64 - 1 and any(l > n for n in nd):
            bad.append((l, sorted(nd)))
    r.instance(not bad, 'utf8dec:truncated', where, 'a sequence longer than the available bytes is accepted: %s' % bad)
    r.exhaustive = True


def probes(iv, tier):
    """evaluation points inside an interval set"""
    if tier == 'thorough':
        return iv.values()
    pts = set()
    for a, b in iv.iv:
        for v in (a, a + 1, b - 1, b, (a + b) // 2):
            if a <= v <= b: pts.add(v)
        for k in range(0, 22):
            for v in (a + (1 << k), a | (1 << k), (1 << k), (1 << k) - 1, b - (1 << k), b & ~(1 << k)):
                if a <= v <= b: pts.add(v)
        v = a
        while v <= b:
            pts.add(v); v += 251
    return sorted(pts)


def utf16_units(c):
    if c < 0x10000:
        return [c]
    c -= 0x10000
    return [0xd800 | (c >> 10), 0xdc00 | (c & 0x3ff)]


def rule_encoders(chk, prog, tier):
    r = chk.rule('C14.d', 'utf8enc / utf16enc produce the Unicode encoding forms for every scalar value and never reach their assert for a value the decoder accepts',
                 floor=8, oracle='Unicode 15 D92 (UTF-8), D91 (UTF-16)')
    for name, unit in (('utf8enc', 1), ('utf16enc', 2)):
        fn = prog.require_func(name)
        def runner(it):
            it.materialise = False
            buf = Obj('out', 'heap')
            c = ISym('c', ALLSCALAR)
            n = it.call(fn, [Ptr(buf, (0,)), c])
            return n, c, [buf.f.get((i,)) for i in range(4)]
        runs = explore(prog, runner, {}, cls=IvInterp, max_runs=200)
        covered = IS()
        where = 'utf.c:%s' % fn.get('line')
        for run in runs:
            if run.outcome.startswith('terminal'):
                # recover the refined domain from the interpreter: the ISym is the only leaf
                r.violation('%s:assert' % name, where, 'the encoder reaches assert(0) for a scalar value the decoder can deliver (path %s)' % [t for _, _, t in run.trail])
                continue
            if run.outcome != 'return':
                raise AnalysisBroken('%s: %s %s' % (name, run.outcome, run.detail))
            n, c, outs = run.value
            iv = c.iv
            covered = covered.union(iv)
            bad = None
            npts = 0
            for x in probes(iv, tier):
                npts += 1
                want = list(chr(x).encode('utf-8')) if unit == 1 else utf16_units(x)
                got = []
                for i in range(n if isinstance(n, int) else 0):
                    t = outs[i]
                    got.append(teval(t, {c: x}) if not isinstance(t, int) else t)
                if got != want:
                    bad = (x, got, want); break
            r.instance(bad is None, '%s:range %r' % (name, iv), where,
                       'U+%04X encodes as %s, must be %s' % (bad[0], [hex(g) for g in bad[1]], [hex(w) for w in bad[2]]) if bad else '',
                       sample='%s %r: %d units, %d points checked' % (name, iv, n if isinstance(n, int) else -1, npts))
        miss = ALLSCALAR.subtract(covered)
        r.instance(not miss, '%s:coverage' % name, where, 'scalar values %r are not encoded' % miss)
    r.exhaustive = (tier == 'thorough')


# ------------------------------------------------------------------ escapes

SIMPLE = {"'": 39, '"': 34, '?': 63, '\\': 92, 'a': 7, 'b': 8, 'f': 12, 'n': 10, 'r': 13, 't': 9, 'v': 11}
ALLCH = frozenset(range(256)) | {-1}


def rule_escapes(chk, prog, tier):
    r = chk.rule('C14.a', 'escape sequences: the lexer accepts exactly the C11 introducers (simple escapes, 1-3 octal digits, x + hex digits); the decoder maps simple escapes to the 5.2.2 values; octal-digit predicates of lexer and decoder are [0-7]',
                 floor=280, oracle='C11 6.4.4.4, 5.2.2 / DESIGN A.9')
    # (1) lexer: scan.c escape(), character after the backslash
    esc = prog.require_func('escape', 'scan.c')
    class Stop(Exception): pass
    def runner(it):
        s = Obj('scanner', 'heap')
        c = Sym('c', ALLCH)
        s.f[('chr',)] = ord('\\'); s.f[('usebuf',)] = 0
        s.f[('loc', 'file')] = None; s.f[('loc', 'line')] = 1; s.f[('loc', 'col')] = 1
        st = {'n': 0}
        def nextchar(it2, args, e):
            st['n'] += 1
            if st['n'] == 1:
                it2.assign(s, ('chr',), c)
            else:
                raise Terminal('next', None)
            return None
        it.models['nextchar'] = nextchar
        it.models['error'] = lambda it2, a, e: (_ for _ in ()).throw(Terminal('error', a))
        try:
            it.call(esc, [Ptr(s, ())])
            res = 'return'
        except Terminal as t:
            res = t.what
        return res, c.dom
    classes = {}
    for run in explore(prog, runner, {}, max_runs=700):
        if run.outcome != 'return':
            raise AnalysisBroken('escape(): %s %s' % (run.outcome, run.detail))
        res, dom = run.value
        for ch in dom:
            classes[ch] = res
    where = 'scan.c:%s' % esc.get('line')
    for ch in sorted(ALLCH):
        valid = ch >= 0 and (chr(ch) in SIMPLE or chr(ch) in '01234567x')
        got = classes.get(ch)
        ok = (got == 'next') == valid and (valid or got == 'error')
        nm = 'EOF' if ch < 0 else (chr(ch) if 32 < ch < 127 else '\\x%02x' % ch)
        r.instance(ok, 'lexer-escape:%s' % nm, where, 'backslash followed by %s must be %s; the lexer %s' % (
            nm, 'accepted' if valid else 'diagnosed', {'next': 'accepts it', 'error': 'diagnoses it', 'return': 'returns without consuming'}.get(got, got)))
    # (2) digit predicates
    for f, fname in (('scan.c', 'isodigit'), ('expr.c', 'isodigit')):
        fn = prog.func(fname, f)
        if fn is None:
            raise AnalysisBroken('%s:%s not found' % (f, fname))
        def runner2(it, fn=fn):
            c = Sym('c', ALLCH)
            v = it.call(fn, [c])
            t = it.split(v, 'isodigit')
            return t, c.dom
        acc = frozenset()
        for run in explore(prog, runner2, {}, max_runs=20):
            if run.outcome != 'return':
                raise AnalysisBroken('%s: %s' % (fname, run.detail))
            if run.value[0]: acc |= run.value[1]
        want = frozenset(map(ord, '01234567'))
        r.instance(acc == want, 'isodigit:%s' % f, '%s:%s' % (f, fn.get('line')), 'accepts %s, octal digits are 0-7' % ''.join(chr(c) for c in sorted(acc) if c >= 0))
    # (3) decoder: simple escapes and numeric escapes on concrete spellings
    dc = prog.require_func('decodechar', 'expr.c')
    cases = [('\\' + k, v, False) for k, v in SIMPLE.items()]
    cases += [('\\0', 0, True), ('\\7', 7, True), ('\\18', 1, True), ('\\101', 65, True), ('\\1011', 65, True), ('\\377', 255, True), ('\\08', 0, True),
              ('\\x41', 0x41, True), ('\\xff', 255, True), ('\\x0', 0, True), ('\\xAbC', 0xabc, True), ('\\x41g', 0x41, True), ('A', 65, False),
              ('\u00e9', 0xe9, False), ('\u20ac', 0x20ac, False), ('\U0001f600', 0x1f600, False)]
    M = {'error': lambda it2, a, e: (_ for _ in ()).throw(Terminal('error', a)), 'fatal': lambda it2, a, e: (_ for _ in ()).throw(Terminal('fatal', a))}
    for sp, val, ho in cases:
        def runner3(it, sp=sp):
            data = list(sp.encode('utf-8')) + [ord('"')]
            src = Ptr(it.mkstr(data, 'lit'), (0,))
            chrp = Obj('chr', 'heap'); hop = Obj('hexoct', 'heap'); hop.f[()] = 0
            n = it.call(dc, [src, Ptr(chrp, ()), Ptr(hop, ()), Ptr(it.mkstr(list(b'lit'), 'd'), (0,)), Ptr(Obj('loc', 'heap'), ())])
            return n, chrp.f.get(()), hop.f.get(())
        runs = explore(prog, runner3, M, max_runs=4)
        if len(runs) != 1:
            raise AnalysisBroken('decodechar(%r): %d paths' % (sp, len(runs)))
        run = runs[0]
        key = 'decode:%s' % sp.encode('unicode_escape').decode()
        where = 'expr.c:%s' % dc.get('line')
        if run.outcome != 'return':
            r.violation(key, where, 'valid literal character %r not decoded: %s' % (sp, run.outcome)); continue
        n, c, h = run.value
        # consumed length: for \18 only \1 ; \1011 only \101 ; \x41g only \x41
        import re
        m = re.match(r'\\x[0-9a-fA-F]+|\\[0-7]{1,3}|\\.|.', sp, re.S)
        wantn = len(m.group(0).encode('utf-8'))
        r.instance(c == val and n == wantn and bool(h) == ho, key, where, 'expected value %#x consuming %d bytes (numeric escape: %s), got value %s consuming %s (numeric: %s)' % (val, wantn, ho, c, n, h))
    r.exhaustive = True


# ------------------------------------------------------------------ stringconcat / character constants

PFX_TYPE = {'': 'char', 'u8': 'uchar', 'u': 'ushort', 'U': 'uint', 'L': None}
WCHAR = {'x86_64-sysv': 'int', 'aarch64': 'uint', 'riscv64': 'int'}
WIDTH = {'char': 1, 'uchar': 1, 'ushort': 2, 'uint': 4, 'int': 4}


def lit_units(pieces, etype):
    """reference: code units of the concatenation, or 'error'"""
    w = WIDTH[etype]
    import re
    out = []
    for p in pieces:
        i = 0
        while i < len(p):
            m = re.match(r'\\x([0-9a-fA-F]+)|\\([0-7]{1,3})|\\(.)|(.)', p[i:], re.S)
            i += len(m.group(0))
            if m.group(1) is not None or m.group(2) is not None:
                v = int(m.group(1), 16) if m.group(1) is not None else int(m.group(2), 8)
                if v >= 1 << (8 * w):
                    return 'error'          # 6.4.4.4p9: value must fit the element type
                out.append(v)
            elif m.group(3) is not None:
                out.append(SIMPLE[m.group(3)])
            else:
                c = ord(m.group(4))
                if w == 1: out += list(chr(c).encode('utf-8'))
                elif w == 2: out += utf16_units(c)
                else: out.append(c)
    return out + [0]


def token_models(prog, toks):
    """scripted token cursor: tok is overwritten from the list by next()"""
    def setup(it):
        it.user['toks'] = list(toks)
        it.user['pos'] = 0
        load(it)
    def load(it):
        tokobj = it.gobj('tok')
        i = it.user['pos']
        if i < len(it.user['toks']):
            kind, lit = it.user['toks'][i]
        else:
            kind, lit = 'TSEMICOLON', None
        tokobj.f[('kind',)] = ev(prog, kind)
        tokobj.f[('lit',)] = Ptr(it.mkstr(list(lit.encode('utf-8')), 'lit%d' % i), (0,)) if lit is not None else None
        tokobj.f[('loc', 'file')] = None; tokobj.f[('loc', 'line')] = i + 1; tokobj.f[('loc', 'col')] = 1
        tokobj.f[('hide',)] = 0; tokobj.f[('space',)] = 0
    def nxt(it, args, e):
        it.user['pos'] += 1
        load(it)
        return None
    return setup, {'next': nxt}


def array_models():
    """util.c array helpers over a byte-indexed buffer model"""
    def arrayadd(it, args, e):
        a, n = args
        val = it.load(a.obj, a.path + ('val',))
        ln = it.load(a.obj, a.path + ('len',))
        if val is None or not isinstance(val, Ptr):
            o = Obj('arraybuf', 'heap'); o.elemsize = n
            val = Ptr(o, (0,))
            it.assign(a.obj, a.path + ('val',), val)
        o = val.obj
        idx = ln // o.elemsize
        it.assign(a.obj, a.path + ('len',), ln + n)
        return Ptr(o, (idx,))
    return {'arrayadd': arrayadd}


def rule_stringconcat(chk, prog, tier):
    r = chk.rule('C14.s', 'string literal concatenation: element type from the (single) prefix, mixed prefixes rejected, characters encoded in the element type\'s UTF form, numeric escapes stored as single code units, length counts the terminator',
                 floor=150, oracle='C11 6.4.5p5-6, 6.4.4.4p9')
    fn = prog.require_func('stringconcat')
    pieces_pool = ['\\x100', '\\x10000', '\\777', 'a', '\u00e9', '\u20ac', '\U0001f610', '\\x41', '\\101', '\\n', '\\x41\u00e9', '\\0\U0001f610', 'ab\\xff', '\\377z', '']
    combos = []
    for p in ('', 'u8', 'u', 'U', 'L'):
        for x in pieces_pool:
            combos.append([(p, x)])
    two = [('a', '\u00e9'), ('\\x41', '\u00e9'), ('\\0', '\U0001f610'), ('\u20ac', '\U0001f600'), ('x', 'y')]
    for p1 in ('', 'u8', 'u', 'U', 'L'):
        for p2 in ('', 'u8', 'u', 'U', 'L'):
            for a, b in (two if tier == 'thorough' else two[:3]):
                combos.append([(p1, a), (p2, b)])
    combos.append([('u', 'a'), ('', 'b'), ('U', 'c')])
    combos.append([('', 'a'), ('u', '\u00e9'), ('', '\U0001f610')])
    targets = ['x86_64-sysv', 'aarch64']
    for target in targets:
        for combo in combos:
            if target != 'x86_64-sysv' and not any(p == 'L' for p, _ in combo):
                continue
            toks = [('TSTRINGLIT', '%s"%s"' % (p, x)) for p, x in combo]
            setup, TM = token_models(prog, toks)
            M = dict(TM); M.update(array_models())
            M['error'] = lambda it2, a, e: (_ for _ in ()).throw(Terminal('error', cmodel.fmt_of(it2, a, 1)))
            M['fatal'] = lambda it2, a, e: (_ for _ in ()).throw(Terminal('fatal', a))
            def xrealloc(it2, a, e):
                o = Obj('strbuf', 'heap'); o.bytebuf = True
                return Ptr(o, (0,))
            M['xreallocarray'] = xrealloc
            def runner(it, combo=combo):
                w = World(prog, it=it, target=target)
                setup(it)
                sl = Obj('stringlit', 'heap')
                t = it.call(fn, [Ptr(sl, ()), 0])
                size = sl.f.get(('size',)); data = sl.f.get(('data',))
                tn = None
                for n in ('char', 'uchar', 'ushort', 'uint', 'int'):
                    if w.t(n) == t: tn = n
                units = []
                wd = WIDTH.get(tn, 1)
                if isinstance(data, Ptr) and isinstance(size, int):
                    for i in range(size):
                        units.append(data.obj.f.get((i * wd,)))
                return tn, size, units, it.user['pos']
            runs = explore(prog, runner, M, max_runs=4)
            key = 'concat:%s%s' % (' '.join('%s"%s"' % (p, x.encode('unicode_escape').decode()) for p, x in combo), '' if target == 'x86_64-sysv' else ',' + target)
            where = 'expr.c:%s' % fn.get('line')
            if len(runs) != 1:
                raise AnalysisBroken('stringconcat %s: %d paths' % (key, len(runs)))
            run = runs[0]
            prefs = {p for p, _ in combo if p}
            if len(prefs) > 1:
                r.instance(run.outcome == 'terminal:error', key, where, 'adjacent literals with different prefixes must be rejected (6.4.5p2); got %s' % run.outcome)
                continue
            pfx = next(iter(prefs)) if prefs else ''
            et = PFX_TYPE[pfx] or WCHAR[target]
            want = lit_units([x for _, x in combo], et)
            if want == 'error':
                ok = run.outcome == 'terminal:error'
                r.instance(ok, key if ok else 'concat-class: numeric escape outside the element type\'s range is accepted and truncated', where,
                           'e.g. %s: escape value does not fit the element type and must be diagnosed (6.4.4.4p9); got %s' % (key, run.value if run.outcome == 'return' else run.outcome,))
                continue
            if run.outcome != 'return':
                r.violation(key, where, 'valid literal rejected: %s %s' % (run.outcome, run.detail)); continue
            tn, size, units, pos = run.value
            ok = tn == et and size == len(want) and units == want and pos == len(combo)
            r.instance(ok, key, where, 'expected %s[%d] = %s, got %s[%s] = %s' % (et, len(want), want, tn, size, units), sample='%s -> %s %s' % (key, tn, units))
    r.exhaustive = False


def rule_charconst(chk, prog, tier):
    r = chk.rule('C14.g', 'character constants: type by prefix (int, unsigned char for u8, char16_t, char32_t, wchar_t per target) and value; an unprefixed constant has the value of a `char` converted to int; multi-character and out-of-range constants are diagnosed',
                 floor=50, oracle='C11 6.4.4.4p10-11, C23 u8 constants')
    fn = prog.require_func('primaryexpr', 'expr.c')
    cases = []
    for p in ('', 'u8', 'u', 'U', 'L'):
        for body in ('a', '\\n', '\\0', '\\x41', '\\377', '\\xff', '\\x80', '\u00e9', '\u20ac', '\U0001f600', '\\x100', '\\xffff', '\\x10000', 'ab', '\\1011'):
            cases.append((p, body))
    SIGNEDCHAR = {'x86_64-sysv': True, 'aarch64': False}
    for target in ('x86_64-sysv', 'aarch64'):
        for p, body in cases:
            if target != 'x86_64-sysv' and p not in ('', 'L'):
                continue
            toks = [('TCHARCONST', "%s'%s'" % (p, body))]
            setup, TM = token_models(prog, toks)
            M = dict(TM)
            M['error'] = lambda it2, a, e: (_ for _ in ()).throw(Terminal('error', cmodel.fmt_of(it2, a, 1)))
            M['fatal'] = lambda it2, a, e: (_ for _ in ()).throw(Terminal('fatal', a))
            def runner(it):
                w = World(prog, it=it, target=target)
                setup(it)
                e = it.call(fn, [Ptr(Obj('scope', 'heap'), ())])
                t = it.load(e.obj, ('type',))
                tn = None
                for n in ('int', 'uchar', 'ushort', 'uint'):
                    if w.t(n) == t: tn = n
                return tn, it.load(e.obj, ('u', 'constant', 'u'), 'unsigned long long'), it.load(e.obj, ('kind',))
            runs = explore(prog, runner, M, max_runs=4)
            key = "charconst:%s'%s'%s" % (p, body.encode('unicode_escape').decode(), '' if target == 'x86_64-sysv' else ',' + target)
            where = 'expr.c:%s' % fn.get('line')
            if len(runs) != 1:
                raise AnalysisBroken('%s: %d paths' % (key, len(runs)))
            run = runs[0]
            # reference
            et = {'': 'int', 'u8': 'uchar', 'u': 'ushort', 'U': 'uint', 'L': WCHAR[target]}[p]
            w = {'': 1, 'u8': 1, 'u': 2, 'U': 4, 'L': 4}[p]
            import re
            m = re.fullmatch(r'\\x([0-9a-fA-F]+)|\\([0-7]{1,3})|\\(.)|(.)', body, re.S)
            if not m:
                want = 'error'           # more than one character
            else:
                if m.group(1) is not None or m.group(2) is not None:
                    v = int(m.group(1), 16) if m.group(1) is not None else int(m.group(2), 8)
                    want = 'error' if v >= 1 << (8 * w) else v
                elif m.group(3) is not None:
                    want = SIMPLE[m.group(3)]
                else:
                    c = ord(m.group(4))
                    if p == '':
                        want = c if c < 0x80 else 'impl'         # not a single-byte execution character: implementation-defined (6.4.4.4p10)
                    elif p == 'u8':
                        want = c if c < 0x80 else 'impl'         # C23 makes this a constraint; C11 has no u8 constants: not judged
                    elif p == 'u':
                        want = c if c < 0x10000 else 'impl'      # not a single char16_t: implementation-defined (6.4.4.4p11)
                    else:
                        want = c
                if want not in ('error', 'impl') and p == '' and SIGNEDCHAR[target] and want >= 0x80:
                    want = (want - 0x100) & (2 ** 64 - 1)          # value of (char)want converted to int
            if want == 'impl':
                continue
            if want == 'error':
                r.instance(run.outcome == 'terminal:error', key, where, 'must be diagnosed (more than one character, or value outside the range of the constant\'s element type); got %s' % (run.value if run.outcome == 'return' else run.outcome,))
                continue
            if run.outcome != 'return':
                r.violation(key, where, 'valid constant rejected: %s %s' % (run.outcome, run.detail)); continue
            tn, val, kind = run.value
            # the constant is stored in a 64-bit carrier; compare modulo the type width as cast() would on use
            tw = WIDTH[et] * 8
            ok = tn == et and kind == ev(prog, 'EXPRCONST') and (val & ((1 << tw) - 1)) == (want & ((1 << tw) - 1)) and \
                (et != 'int' or val == want)
            r.instance(ok, key, where, 'expected (%s) %d, got (%s) %s' % (et, want if want < 2 ** 63 else want - 2 ** 64, tn, val if val < 2 ** 63 else val - 2 ** 64),
                       sample='%s -> (%s) %s' % (key, tn, val))
    r.exhaustive = False


def run(chk, tier):
    prog = facts.programs()['cproc-qbe']
    chk.guard('C14.c', lambda: rule_utf8dec(chk, prog, tier))
    chk.guard('C14.d', lambda: rule_encoders(chk, prog, tier))
    chk.guard('C14.a', lambda: rule_escapes(chk, prog, tier))
    chk.guard('C14.s', lambda: rule_stringconcat(chk, prog, tier))
    chk.guard('C14.g', lambda: rule_charconst(chk, prog, tier))
    from props import c16
    chk.guard('C16.c', lambda: c16.rule_stringkey(chk, prog, tier))      # two literals are the same object only if all their code units agree: the pool key covers every byte
    from props import c12
    chk.guard('C12.e', lambda: c12.rule_expansion(chk, prog, tier))      # literals made by the # operator: the spelling of a character constant or string literal argument (backslashes, quotes) is what decodechar later reads
