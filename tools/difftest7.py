#!/usr/bin/env python3
"""DISCOVERY AID ONLY - not a registered check.  Linkage differential: every history of up to 3 declarations of one
identifier from the alphabet of rule C09.b (props/c09.py: alphabet), written out as C, compiled by gcc -std=c11 -c (symbol
table read with nm) and by cproc-qbe (definitions read from the IL): defined or not, exported or local, number of local
(block-scope static) definitions, and whether both accept the history.

usage: difftest7.py [obj|func] [maxlen]"""
import itertools, os, re, subprocess, sys, tempfile
HERE = os.path.dirname(os.path.abspath(__file__))
sys.path.insert(0, os.path.join(HERE, '..')); sys.path.insert(0, os.path.join(HERE, '..', 'lib'))
from props import c09
CPROC = os.environ.get('CPROC_QBE', '/repo/cproc-qbe')

def render(hist):
    out = []; k = 0
    for d in hist:
        sc = ' '.join({'static': 'static', 'extern': 'extern', 'tl': '_Thread_local'}[s] for s in sorted(d.sc, key=lambda s: {'static': 0, 'extern': 0, 'tl': 1}[s]))
        if d.kind == 'obj': decl = '%s int x%s;' % (sc, ' = 1' if d.init else '')
        else: decl = '%s %sint x(void)%s' % (sc, 'inline ' if d.inline else '', ' { return 1; }' if d.init else ';')
        decl = decl.strip()
        if d.scope == 'file': out.append(decl)
        else:
            k += 1; out.append('void wrap%d(void) { %s }' % (k, decl))
    return '\n'.join(out) + '\n'

def gcc_syms(path, d):
    o = os.path.join(d, 'g.o')
    r = subprocess.run(['gcc', '-std=c11', '-w', '-fno-common', '-O0', '-c', '-o', o, path], capture_output=True, text=True)
    if r.returncode: return None, r.stderr.split('\n')[1][:120] if '\n' in r.stderr else r.stderr[:120]
    nm = subprocess.run(['nm', o], capture_output=True, text=True).stdout
    glob = loc = 0; tls = False
    for line in nm.split('\n'):
        m = re.match(r'^[0-9a-f ]{16} (\w) (x(?:\.\d+)?)$', line)
        if not m: continue
        t, name = m.groups()
        if t == 'U': continue
        if t.isupper(): glob += 1
        else: loc += 1
    return (glob, loc), ''

def cproc_syms(path):
    c = subprocess.run([CPROC, path], capture_output=True, text=True)
    if c.returncode: return None, c.stderr.strip()[:120]
    glob = loc = 0
    for line in c.stdout.split('\n'):
        m = re.match(r'^(export )?(thread )?(?:data|function(?: \S+)?) \$(x|\.Lx\.\d+)\b', line.replace('export\nfunction', 'export function'))
        if m:
            if m.group(1): glob += 1
            else: loc += 1
    # cproc prints `export` on its own line before `function`
    text = c.stdout.replace('export\nfunction', 'export function')
    glob = loc = 0
    for line in text.split('\n'):
        m = re.match(r'^((?:export |thread )*)(?:data|function(?: [:\w.]+)?) \$(x|\.Lx\.\d+)[ (]', line)
        if m:
            if 'export' in m.group(1): glob += 1
            else: loc += 1
    return (glob, loc), ''

def main():
    kind = sys.argv[1] if len(sys.argv) > 1 else 'obj'
    maxlen = int(sys.argv[2]) if len(sys.argv) > 2 else 2
    A = c09.alphabet(kind)
    d = tempfile.mkdtemp(prefix='dt7-')
    stats = {}
    for n in range(1, maxlen + 1):
        for hist in itertools.product(A, repeat=n):
            text = render(hist)
            p = os.path.join(d, 'p.c'); open(p, 'w').write(text)
            g, gerr = gcc_syms(p, d); c, cerr = cproc_syms(p)
            if g is None and c is None: st = 'both-reject'
            elif g is None: st = 'gcc-rejects-only'
            elif c is None: st = 'cproc-rejects-only'
            elif g != c: st = 'SYMBOLS'
            else: st = 'ok'
            stats[st] = stats.get(st, 0) + 1
            if st not in ('ok', 'both-reject'):
                print('%s: %s | gcc %s %s | cproc %s %s' % (st, text.strip().replace('\n', ' / '), g, gerr, c, cerr), flush=True)
    print(stats)

if __name__ == '__main__':
    main()
