#!/usr/bin/env python3
"""DISCOVERY AID ONLY - not a registered check.  A validator for the QBE IL text cproc prints, applied to the output for
generated programs (the registered C03 rules decide well-formedness statically from cproc's source; this looks at actual
outputs to find shapes those rules do not cover).  Checks, per function: every temporary is assigned exactly once; every
use is reached only by paths through its definition (dominance, phi arguments at the end of the named predecessor);
phi sources are exactly the predecessors; jump targets exist; every block ends in a jump or falls through to a block;
operand classes fit the instruction (an `l` operation never takes a `w` temporary, addresses are `l`, float operands
match); aggregate types are defined before use; call argument / return classes match the callee defined in the module.

usage: ilcheck.py file.qbe   (exit 1 and a list of findings if malformed)"""
import re, sys, os
sys.path.insert(0, os.path.dirname(os.path.abspath(__file__)))
import qbei

INT = {'w', 'l'}
# result class -> operand classes for ordinary arithmetic: same as the result (w may also take l temporaries)
ARITH = {'add', 'sub', 'mul', 'div', 'udiv', 'rem', 'urem', 'and', 'or', 'xor', 'neg'}
SHIFT = {'shl', 'shr', 'sar'}


def check_module(text):
    probs = []
    mod = qbei.Module(text)
    # type definitions before use
    defined = set()
    for line in text.split('\n'):
        m = re.match(r'type (:[\w.]+) =', line.strip())
        for use in re.findall(r':[\w.]+', line):
            if m and use == m.group(1): continue
            if use not in defined: probs.append('aggregate type %s used before its definition: %s' % (use, line.strip()[:80]))
        if m: defined.add(m.group(1))
    for fname, f in mod.funcs.items():
        cls = {}; defs = {}
        for pc, pn in f.params: cls[pn] = 'l' if pc.startswith(':') else pc; defs[pn] = ('param', 0)
        labels = [b[0] for b in f.blocks]
        if len(set(labels)) != len(labels): probs.append('%s: duplicate block label' % fname)
        # successors / predecessors
        succ = {}
        for bi, (label, phis, insts, jump) in enumerate(f.blocks):
            if jump is None:
                if bi + 1 >= len(f.blocks): probs.append('%s: block %s falls off the end of the function' % (fname, label)); succ[label] = []
                else: succ[label] = [f.blocks[bi + 1][0]]
            elif jump[0] == 'jmp': succ[label] = [jump[1]]
            elif jump[0] == 'jnz': succ[label] = [jump[3], jump[5]]
            else: succ[label] = []
            for t in succ[label]:
                if t not in f.index: probs.append('%s: jump from %s to undefined block %s' % (fname, label, t))
        pred = {l: [] for l in labels}
        for a, ss in succ.items():
            for b in ss:
                if b in pred: pred[b].append(a)
        # definitions
        for bi, (label, phis, insts, jump) in enumerate(f.blocks):
            for k, t in enumerate(phis + insts):
                if len(t) > 1 and t[1] == '=':
                    if t[0] in defs: probs.append('%s: temporary %s assigned twice' % (fname, t[0]))
                    defs[t[0]] = (label, k if t in insts else -1)
                    c = t[2]; cls[t[0]] = 'l' if c.startswith(':') else c
        # reaching definitions: forward dataflow of "definitely defined" sets
        allt = set(defs)
        din = {l: set(allt) for l in labels}; dout = {}
        entry = labels[0]
        din[entry] = {pn for _, pn in f.params}
        changed = True
        gen = {}
        for label, phis, insts, jump in f.blocks:
            gen[label] = {t[0] for t in phis + insts if len(t) > 1 and t[1] == '='}
        while changed:
            changed = False
            for label in labels:
                if label != entry:
                    ps = pred[label]
                    new = set.intersection(*[dout.get(p, set(allt)) for p in ps]) if ps else set(allt)
                    if new != din[label]: din[label] = new; changed = True
                o = din[label] | gen[label]
                if dout.get(label) != o: dout[label] = o; changed = True
        reachable = set(); stack = [entry]
        while stack:
            b = stack.pop()
            if b in reachable: continue
            reachable.add(b); stack += [x for x in succ.get(b, []) if x in f.index]
        def opcls(x):
            if x.startswith('%'): return cls.get(x)
            if x.startswith('$'): return 'l'
            if x.startswith('s_'): return 's'
            if x.startswith('d_'): return 'd'
            return 'const'
        def need(fn, label, t, x, want, what):
            c = opcls(x)
            if c is None: probs.append('%s/%s: use of undefined temporary %s in `%s`' % (fn, label, x, ' '.join(t))); return
            if c == 'const': return
            if want == 'l' and c != 'l': probs.append('%s/%s: %s of `%s` has class %s, needs l' % (fn, label, what, ' '.join(t), c))
            elif want == 'w' and c not in ('w', 'l'): probs.append('%s/%s: %s of `%s` has class %s, needs an integer class' % (fn, label, what, ' '.join(t), c))
            elif want in ('s', 'd') and c != want: probs.append('%s/%s: %s of `%s` has class %s, needs %s' % (fn, label, what, ' '.join(t), c, want))
        for label, phis, insts, jump in f.blocks:
            if label not in reachable: continue
            live = set(din[label])
            # phis
            for t in phis:
                pairs = [x for x in t[4:] if x != ',']
                srcs = pairs[0::2]; vals = pairs[1::2]
                if sorted(srcs) != sorted(set(pred[label]) & reachable | (set(pred[label]) - reachable)) and sorted(srcs) != sorted(pred[label]):
                    probs.append('%s/%s: phi %s names %s, the predecessors are %s' % (fname, label, t[0], srcs, pred[label]))
                for s_, v in zip(srcs, vals):
                    if v.startswith('%') and s_ in dout and v not in dout[s_] and s_ in reachable:
                        probs.append('%s/%s: phi argument %s is not defined at the end of %s' % (fname, label, v, s_))
                    need(fname, label, t, v, t[2], 'phi argument')
            live |= {t[0] for t in phis}
            for t in insts:
                ops = []
                if len(t) > 1 and t[1] == '=':
                    c, op = t[2], t[3]; a = [x for x in t[4:] if x != ',']
                else:
                    c, op = None, t[0]; a = [x for x in t[1:] if x != ',']
                uses = [x for x in a if x.startswith('%')] if op != 'call' else [x for x in t if x.startswith('%') and x != t[0]]
                if op == 'call' and c is not None: uses = [x for x in t[4:] if x.startswith('%')]
                for x in uses:
                    if x not in live: probs.append('%s/%s: %s is used in `%s` but not defined on every path to it' % (fname, label, x, ' '.join(t)[:70]))
                # classes
                if op in ARITH and c in INT:
                    for x in a: need(fname, label, t, x, c, 'operand')
                elif op in ARITH and c in ('s', 'd'):
                    for x in a: need(fname, label, t, x, c, 'operand')
                elif op in SHIFT:
                    need(fname, label, t, a[0], c, 'shifted operand'); need(fname, label, t, a[1], 'w', 'shift count')
                elif op.startswith('load'):
                    need(fname, label, t, a[0], 'l', 'address')
                    if op in ('loadl',) and c != 'l': probs.append('%s/%s: loadl into class %s' % (fname, label, c))
                    if op == 'loads' and c != 's' or op == 'loadd' and c != 'd': probs.append('%s/%s: %s into class %s' % (fname, label, op, c))
                elif op.startswith('store'):
                    need(fname, label, t, a[1], 'l', 'address')
                    k = op[5]
                    need(fname, label, t, a[0], {'b': 'w', 'h': 'w', 'w': 'w', 'l': 'l', 's': 's', 'd': 'd'}[k], 'stored value')
                elif op.startswith('ext') and op not in ('exts',):
                    need(fname, label, t, a[0], 'w', 'operand')
                elif op == 'exts': need(fname, label, t, a[0], 's', 'operand')
                elif op == 'truncd': need(fname, label, t, a[0], 'd', 'operand')
                elif op in ('stosi', 'stoui'): need(fname, label, t, a[0], 's', 'operand')
                elif op in ('dtosi', 'dtoui'): need(fname, label, t, a[0], 'd', 'operand')
                elif op in ('swtof', 'uwtof'): need(fname, label, t, a[0], 'w', 'operand')
                elif op in ('sltof', 'ultof'): need(fname, label, t, a[0], 'l', 'operand')
                elif op[0] == 'c' and op not in ('call', 'copy', 'cast') and len(op) >= 4:
                    k = op[-1]
                    for x in a: need(fname, label, t, x, k, 'compared operand')
                    if c != 'w' and c != 'l': probs.append('%s/%s: comparison result of class %s' % (fname, label, c))
                elif op in ('alloc4', 'alloc8', 'alloc16'):
                    need(fname, label, t, a[0], 'l', 'allocation size')
                    if c != 'l': probs.append('%s/%s: alloc result of class %s' % (fname, label, c))
                elif op == 'call':
                    tt = t[3:] if c is not None else t
                    target = tt[1]
                    args = []; k = 3
                    while tt[k] != ')':
                        if tt[k] in (',', '...'): k += 1; continue
                        args.append((tt[k], tt[k + 1])); k += 2
                    for ac, av in args:
                        need(fname, label, t, av, 'l' if ac.startswith(':') else ac, 'argument')
                    if target in mod.funcs:
                        g = mod.funcs[target]
                        named = args[:len(g.params)]
                        if len(args) < len(g.params) or (len(args) > len(g.params) and not g.variadic):
                            probs.append('%s/%s: call of %s with %d arguments, it has %d parameters' % (fname, label, target, len(args), len(g.params)))
                        for (pc, pn), (ac, av) in zip(g.params, named):
                            if pc != ac: probs.append('%s/%s: argument class %s for parameter %s of %s (class %s)' % (fname, label, ac, pn, target, pc))
                        if c is not None and (g.ret or None) != c: probs.append('%s/%s: call result class %s, %s returns %s' % (fname, label, c, target, g.ret))
                        if c is not None and g.ret is None: probs.append('%s/%s: value of a call to %s, which returns nothing' % (fname, label, target))
                    else:
                        need(fname, label, t, target, 'l', 'callee') if target.startswith('%') else None
                if len(t) > 1 and t[1] == '=': live.add(t[0])
            if jump is not None:
                if jump[0] == 'jnz':
                    if jump[1].startswith('%') and jump[1] not in live: probs.append('%s/%s: jnz on %s, not defined on every path' % (fname, label, jump[1]))
                    need(fname, label, jump, jump[1], 'w', 'condition')
                if jump[0] == 'ret':
                    if len(jump) > 1:
                        if f.ret is None: probs.append('%s/%s: ret with a value in a function without return class' % (fname, label))
                        else:
                            if jump[1].startswith('%') and jump[1] not in live: probs.append('%s/%s: ret of %s, not defined on every path' % (fname, label, jump[1]))
                            need(fname, label, jump, jump[1], 'l' if f.ret.startswith(':') else f.ret, 'returned value')
                    elif f.ret is not None and fname != '$main':
                        probs.append('%s/%s: ret without a value in a function returning %s' % (fname, label, f.ret))
    return probs


if __name__ == '__main__':
    ps = check_module(open(sys.argv[1]).read())
    for p in ps[:40]: print(p)
    sys.exit(1 if ps else 0)
