#!/usr/bin/env python3
"""Rewrite the seeded-mutation matrix block of DESIGN.md from seeded/*/meta.json + result.json."""
import json, os, re
HERE = os.path.dirname(os.path.dirname(os.path.abspath(__file__)))
rows = []
for n in sorted(os.listdir(os.path.join(HERE, 'seeded'))):
    d = os.path.join(HERE, 'seeded', n)
    try: meta = json.load(open(os.path.join(d, 'meta.json')))
    except Exception: meta = {}
    try: res = json.load(open(os.path.join(d, 'result.json')))
    except Exception: res = {}
    files = ','.join(meta.get('files_changed', [])) if isinstance(meta.get('files_changed'), list) else str(meta.get('files_changed', ''))
    title = (meta.get('title') or '').replace('|', '/')[:90]
    caught = ', '.join(res.get('caught_by', [])) or '**missed**'
    inst = ''
    for p in res.get('caught_by', [])[:1]:
        i = res['detail'][p]['instances'][:1]
        if i: inst = i[0].replace('instance ', '').replace('|', '/')[:70]
    rows.append('| %s | %s | %s | %s | %s |' % (n, files, title, caught, inst))
tab = '| seed | file | mutation | caught by | first reporting instance |\n|---|---|---|---|---|\n' + '\n'.join(rows)
ncaught = sum(1 for r in rows if '**missed**' not in r)
tab += '\n\n%d of %d seeded mutations are reported by at least one check (each seed: patch + demonstration + meta.json under `seeded/<name>/`; every one was re-verified by us in a scratch worktree: builds, 170/170 tests pass with the patch, the demonstration fails with it and passes without).%s' % (ncaught, len(rows), '' if ncaught == len(rows) else '  Not reported: ' + ', '.join(sorted(os.path.basename(os.path.dirname(f_)) for f_ in __import__('glob').glob(os.path.join(os.path.dirname(os.path.dirname(os.path.abspath(__file__))), 'seeded', '*', 'result.json')) if not json.load(open(f_)).get('caught_by'))) + ' - see the wave notes above for the reason (C07-23: C11 6.7.9p19 / DR 413 is read both ways by gcc and clang; the rule leaves the case unjudged on purpose).')
p = os.path.join(HERE, 'DESIGN.md')
s = open(p).read()
s = re.sub(r'<!-- MATRIX-BEGIN -->.*?<!-- MATRIX-END -->', lambda m: '<!-- MATRIX-BEGIN -->\n' + tab + '\n<!-- MATRIX-END -->', s, flags=re.S)
open(p, 'w').write(s)
print(ncaught, 'of', len(rows))
