#!/usr/bin/env python3
"""Regenerate MANIFEST.json from the table below (kept in one place so it stays valid)."""
import json, os
HERE = os.path.dirname(os.path.dirname(os.path.abspath(__file__)))
props = [json.loads(l) for l in open(os.path.join(HERE, 'properties.jsonl'))]

CLAIMED = {
 'C05': dict(
  technique='abstract interpretation (partial evaluation of typepromote/typecommonreal/mkbinaryexpr over the static type-descriptor domain) compared with C11 6.3.1/6.5 oracle tables; static descriptor-table comparison with the LP64 psABIs',
  text='Decides the arithmetic typing core exhaustively over the finite domain the property names (all arithmetic and enum types x bit-field widths x binary operators, plus pointer/null/struct operand classes): integer promotions, usual arithmetic conversions, per-operator result type / operand conversions / constraint diagnostics of mkbinaryexpr, and the scalar descriptor and per-target tables. Typing of arbitrarily nested derived types, unary/conditional operators, literals and compatibility judgements are NOT yet decided.',
  note='Trusts clang 14 front end, lib/eai.py, the oracle functions o_promote/o_common/o_binary in props/c05.py (written from C11, not from type.c). Results are compared modulo the unobservable enum/compatible-integer tie.',
  design='5/C05'),
 'C13': dict(
  technique='abstract interpretation of scan.c:scankind/number/ident with a symbolic input character (finite-domain splitting, re-execution DFS) yielding a decision tree / step tables compared with C11 6.4; static keyword-table checks incl. the bisection verified over the ordering abstraction',
  text='Decides: (a) the complete first-level decision tree of the scanner - every punctuator spelling, its token kind, maximal munch against every longer punctuator/comment/pp-number continuation, classification of all 257 first characters, literal prefixes, the ".." push-back; (b) the pp-number and identifier continuation sets for every character and exponent state; (c) the keyword table (sorted, spelling->kind vs oracle, nothing extra, binary search correct for every table position and gap, applied in next()). String/char literal and comment scanners, and the character reader (splices), are NOT decided here.',
  note='Trusts clang 14 front end, lib/eai.py, the models of nextchar/bufadd/ungetc and the ctype models ("C" locale - no setlocale call, rule C20.a), oracle lists PUNCT/KEYWORDS in props/c13.py (C11 6.4.1, 6.4.6, C23, GNU).',
  design='5/C13'),
 'C04': dict(
  technique='AST extraction of the fold-arm table of eval.c (carrier member x host operator x class) + abstract interpretation of eval() over value-class partitions (trap classes, boundary values) compared with C11 6.3/6.5/6.6',
  text='Decides structural clauses: every fold arm applies the host operator of its token to the carrier member its signedness class demands and all operator/class combinations have arms; folds always pass the wrap step; no fold can execute a trapping host division (exact over the classes that determine trapping); the cast and logical folds give the C-mandated result on a boundary-value partition (finite, stated as non-exhaustive); consumers test constness before reading the value. Numeric equality for all operand values is NOT decided (host arithmetic trusted).',
  note='Trusts clang 14 front end, lib/eai.py (its C integer/float semantics, union-member reinterpretation), oracle tables in props/c04.py.',
  design='5/C04'),
 'C09': dict(
  technique='abstract interpretation of decl.c (decl/declcommon/getlinkage/defineobj/emittentativedefns, mkglobal, emitdata) with a scripted token cursor to extract the per-identifier declaration step function; explicit-state model checking of all declaration histories against a C11 6.2.2/6.9.2/6.7.4p7 reference implementation',
  text='Decides, for one identifier: every history of up to 2 (quick) / 3 (thorough) declarations over {object,function} x {file,block scope} x all storage-class/inline/initialiser combinations, plus all file-scope histories up to 3 / 4, yields the diagnostics, emitted definitions (symbol class, export, thread marker), scope bindings and end-of-unit tentative flush that C11 prescribes; plus the mkglobal naming table (asm labels verbatim, unique local names) and the export/thread keywords. Interactions between different identifiers and the emitted bytes of the definitions are NOT decided. Histories where C11 is silent (_Thread_local without initialiser) are left unjudged and counted.',
  note='Trusts clang 14 front end, lib/eai.py, the neighbour models in props/c09.py (declspecs/declarator/consume/scope map/emitters as events) and the reference semantics ref_step (DESIGN A.6). One known finding (inline definition + later external declaration, upstream XXX) is listed in known_findings.json.',
  design='5/C09'),
 'C17': dict(
  technique='abstract interpretation of driver.c (main/buildobj/spawnphase/buildexe) with event models for the process API: decision table over the cproc(1) option grammar plus a symbolic argument (per-character finite-domain splitting) for parser completeness, compared with a reference driver transcribed from the manual',
  text='Decides: for ~900 command lines generated from the option grammar (every option in attached/detached form, every mode x input type x -o form, -x names, multi-input combinations, ill-formed options) the exact plan - tools spawned, in order, with their complete argv, output naming, skipped inputs, usage errors before anything runs - equals the documented one; a symbolic first argument shows no undocumented option form is honoured; changeext and the arch-name agreement with targ.c. Not exhaustive over all command lines (finite grammar sample + symbolic single argument); what the spawned tools do is out of scope.',
  note='Trusts clang 14 front end, lib/eai.py, lib/driver.py models (posix_spawn, pipe, wait, array helpers), lib/symstr.py, the reference driver in props/c17.py (DESIGN A.7). config.h is read from /repo (or generated by ./configure into the work dir).',
  design='5/C17'),
 'C18': dict(
  technique='abstract interpretation of driver.c with nondeterministic models of posix_spawnp/wait/waitpid (which child terminates next, with which status; which spawn fails): exhaustive exploration of all schedules per pipeline shape by re-execution DFS; eight trace properties checked on every path',
  text='Decides, for 14 (quick) / 17 (thorough) pipeline shapes x failure modes {exit 1, signal} x every termination order x every failing spawn position: non-zero exit iff a stage failed; no link after a failure; the failing pipeline output is unlinked; all mkstemp temporaries are unlinked before any exit; SIGTERM to every still-running stage on the first failure; every child reaped; wait bookkeeping consistent (no wait without children, which is the static face of "never hangs"); no command-line input is ever unlinked. Real timing, signal delivery and the tools themselves are abstracted (a killed child is reaped with SIGTERM status); pipe/fcntl/mkstemp failures are not injected.',
  note='Trusts clang 14 front end, lib/eai.py, the process-API models in lib/driver.py. Shapes with 4-5 stages are in the thorough tier (exploration grows as n! x 2^n).',
  design='5/C18'),
 'C14': dict(
  technique='interval-set abstract interpretation of utf.c (exact accepted / encoded code-point sets, lib/ivl.py), finite-domain interpretation of the lexer escape scanner over all 257 characters, E-AI tables of decodechar/stringconcat/primaryexpr over literal classes; compared with Unicode 15 ch.3 and C11 6.4.4.4/6.4.5',
  text='Decides exactly: the UTF-8 decoder acceptance set per length (all 2^32 byte quadruples, by interval analysis); the encoders range dispatch, assert-freedom on every scalar value and their code units (thorough: every code point; quick: boundaries, bit probes, stride); the set of escape introducers the lexer accepts; digit predicates. Decides on a finite table (stated non-exhaustive): decoded values of escapes, element type / code units / length of concatenated literals for all prefix pairs, character-constant types and values per target. Cases C11 leaves implementation-defined are not judged.',
  note='Trusts clang 14 front end, lib/eai.py + lib/ivl.py, the token-cursor and array/buffer models in props/c14.py, Python\'s UTF-8/16 codecs as the Unicode oracle. One known finding (out-of-range string escapes truncated; upstream test pins it).',
  design='5/C14'),
 'C19': dict(
  technique='CFG dataflow over clang ASTs: conditional constant propagation under an end-of-input seed from every token-loop head with context-sensitive callee summaries; belief-inferred nullable-result and released-variable analyses; dominator rules for the output/exit discipline; E-AI over bounded index domains',
  text='Decides structural clauses: every one of the 32 token-driven parser loops and the character-level scanner loops exits at end of input; nullable results are tested before dereference (incl. through dereferencing callees); nothing is read after release; exit statuses are the constants 1/2 and main returns 0 only behind fflush + terminal ferror test; input read errors are consulted; NULL never reaches %s; the initializer object stack, zero()\'s store table (all alignments), the AVL ancestor stack and LEN()-guarded tables stay in bounds; literal scanners reject NUL bytes. Full memory safety, recursion depth and unreachability of every assert are NOT decided.',
  note='Trusts clang 14 front end, lib/cfg.py / lib/flow.py / lib/eofccp.py (the token-API model: next() identity at EOF is itself checked on scankind), reviewed exception tables NULL_EXCEPTIONS / INDEX_EXCEPTIONS in props/c19.py (one line of reason each).',
  design='5/C19'),
 'C03': dict(
  technique='abstract interpretation of the block-building primitives (mkblock/funclabel/funcjmp/funcjnz/funcinst/funcexpr) on abstract block objects with graph invariants checked on the result; E-AI table of dataitem; AST field-usage and stream-usage rules; CFG dominator rule for the exit discipline',
  text='Decides structural clauses: terminator-once for all four terminators and funcinst after a terminator; for 16 shapes of nested ?:/&&/|| (incl. arms ending in a no-return call) every phi source is a real predecessor and no jump targets an unplaced block; string data items emit exactly size bytes (units + zero fill) for all width/length/size combinations without reading outside the literal; no bookkeeping field is write-only (label definedness); diagnostics only on stderr and IL only on stdout; status 0 only behind fflush + terminal ferror. Class agreement and def-before-use of temporaries in arbitrary functions are NOT decided.',
  note='Trusts clang 14 front end, lib/eai.py, the array/alloc models in props/c03.py. One known finding (phi after a no-return arm of ?:).',
  design='5/C03'),
 'C15': dict(
  technique='explicit-state exploration: tree.c (treeinsert/balance/rot) and qbe.c:switchcase/casesearch are interpreted abstractly for every insertion order of up to 6 (quick) / 7 (thorough) case constants; the emitted compare ladder is simulated for every probe class; keys are only compared, so an order type stands for all key sets (checked on the AST)',
  text='Decides exhaustively for all insertion orders of n <= 6/7 keys: search-tree order, AVL balance and stored heights, presence of every key, duplicate detection; that the emitted ladder sends each key to its case body and every gap/outside value to the default, with compare opcodes of the controlling type class and at most height-many equality tests; the label() diagnostics; no per-switch state shared across recursion. Logarithmic depth for thousands of cases follows from the AVL invariant only inductively - larger trees are NOT explored; agreement of 64-bit key order with 32-bit unsigned compares relies on sign-extended keys (assumption).',
  note='Trusts clang 14 front end, lib/eai.py (incl. the first-member view of struct switchcase), models in props/c15.py.',
  design='5/C15'),
 'C16': dict(
  technique='explicit-state exploration of map.c (mapinit/mapput/mapget/keyindex/keyequal interpreted abstractly, hash values engineered to collide at every table size) over bounded insertion histories; E-AI tables for hash, stringdecl, scope chain and tagspec; AST who-accesses-which-table rule',
  text='Decides: for all 4^5 (quick) / 5^6 (thorough) hash assignments of an insertion history starting at capacity 4, every key stays retrievable with its own value across growth and absent keys stay absent, with len/cap bookkeeping intact; hash() reads exactly the key bytes; string-pool keys cover all bytes of the literal; tags and ordinary identifiers use separate tables; scope-chain lookups stop at the innermost hit; the 17-row tag shadowing table of tagspec. Histories of 10^5 operations and prototype-scope handling in declarators are NOT decided.',
  note='Trusts clang 14 front end, lib/eai.py, the table-allocation and scripted-token models in props/c16.py. Capacity 2 is excluded: the growth rule leaves no free slot there, but no call site uses it (rule C16.b checks every mapinit constant).',
  design='5/C16'),
 'C12': dict(
  technique='abstract interpretation of pp.c (next/expand/expandfunc/ctxnext/define/undef/macroequal/stringize/directive, real map.c underneath) with a scripted token source; differential comparison of the resulting token sequence with a reference C11 6.10.3 hide-set expander over a generated family of macro sets and invocation forms',
  text='Decides on a generated family (19 macro definitions x 49 invocation forms, 21 redefinition pairs, 18 directive forms; finite, not exhaustive): the expanded token sequence (kinds and spellings incl. stringification) equals the reference expander; ill-formed invocations are diagnosed; redefinitions are accepted iff identical; unimplemented directives and ## are rejected; at end of input no macro is left hidden and the expansion depth is 0. Cases C11 leaves unspecified (invocation completed beyond the rescanned list) are excluded from generation.',
  note='Trusts clang 14 front end, lib/eai.py, the array/scan models and the reference expander in props/c12.py. One known finding (extra empty trailing argument accepted).',
  design='5/C12'),
 'C11': dict(
  technique='abstract interpretation of scan.c:nextchar with a symbolic character stream (path invariant: line counter advances once per consumed new-line, also inside splices); E-AI tables for token positions (real nextchar + scankind on scripted input), #line / line-marker handling and the location used by string-literal decode errors; AST rule on every error() call',
  text='Decides: on every path of nextchar up to 4 (quick) / 5 (thorough) reads the line counter advances exactly once per consumed new-line and the column restarts; token positions for 13 layouts of white space / comments / splices; the presumed location set by 9 forms of #line and line markers and that it is applied after the directive line; the diagnostic header format; that all 200+ error() calls are given a token/scanner location and that decode errors in concatenated literals use the piece location. Presumed-location arithmetic for arbitrary marker sequences is NOT decided; new-line tokens themselves carry the following line (observed quirk, not judged).',
  note='Trusts clang 14 front end, lib/eai.py, harness models shared with props/c12.py and props/c14.py.',
  design='5/C11'),
 'C08': dict(
  technique='abstract interpretation of qbe.c:emittype/mkfunc, the call arm of expr.c:postfixexpr and of qbe.c:funcexpr, and type.c:typeadjust over families of aggregate/function type descriptors; compared with the QBE aggregate-type grammar and C11 6.5.2.2 / 6.7.6.3',
  text='Decides on finite descriptor families: the aggregate type description text (class letters, total element counts over all array dimensions, nested aggregates emitted first, union alternatives) for 11 struct/union shapes; that mkfunc registers the return type and every parameter type, named or not; for 40 (callee signature x argument list) combinations the converted argument types (parameter type for named, default promotions for variadic), arity diagnostics and the position of the variadic marker; parameter adjustment of arrays. Register classification of arbitrary aggregates by the backend and the va_list layouts (see C05.f) are outside this check.',
  note='Trusts clang 14 front end, lib/eai.py, the printf formatter and token-script models in props/c08.py.',
  design='5/C08'),
 'C10': dict(
  technique='derived no-return set and exit-status constants; E-AI tables for unsupported-feature arms, member-declaration constraints (struct and union) and qualifier inheritance through member access; AST inventory of the 264 error()/fatal() call sites with guard polarity, compared with a reviewed baseline (deletion and inversion only)',
  text='Decides structural clauses: error/fatal/usage never return and exit with the constants 1/2; the documented-unsupported features reach a diagnostic; 110 member-declaration cases (bit-field type/width/zero width, named/unnamed, struct and union) are accepted or diagnosed as C11 6.7.2.1 demands; member lvalues inherit the aggregate qualifiers so ++ through const is diagnosed; none of the 264 reference diagnostic sites has been deleted or had its guard inverted. Whether each surviving check tests exactly the condition the standard requires is NOT decided (other properties decide several: C05.c operand constraints, C09 linkage conflicts, C12/C13/C14 malformed tokens).',
  note='Trusts clang 14 front end, lib/eai.py, baseline/diagnostics.json (regenerated only by tools/rebaseline.py after review; rule C10.c tolerates rewording/moving and reports it as drift).',
  design='5/C10'),
 'C20': dict(
  technique='call-graph and AST rules over every function of cproc-qbe (forbidden environment/time/locale/random APIs with a positive witness, pointer-to-integer conversions and %p, hash-table slot iteration, numbering sources, file routes) plus E-AI execution of the nine node constructors to list fields left indeterminate, compared with a reviewed allow-list',
  text='Decides structural clauses: nothing in cproc-qbe calls an environment-, clock-, locale- or randomness-dependent function (so ctype/strtod/printf are C-locale); no pointer value is converted to an integer, printed, hashed or ordered; only map.c (and one reviewed diagnostic loop) walks table slots; ids come from deterministic counters; each constructor initialises every field outside reviewed variant arms; stdin/file and -o/stdout differ only in the FILE. Uninitialised reads through tagged unions in general, and equality of the self-built compiler, are NOT decided.',
  note='Trusts clang 14 front end, lib/eai.py, the allow-lists ALLOWED / FORBIDDEN in props/c20.py (each entry carries its reason).',
  design='5/C20'),
 'C02': dict(
  technique='AST lint of the compiler sources against the constructs cproc itself rejects (with a compiled-in positive witness file), bounded model check of init.c:initadd over initializer histories (ordering abstraction), and shared determinism / lowering-table rules of C20, C16.b and C01.a',
  text='Decides necessary conditions only: cproc\'s own 19 translation units stay inside the subset cproc accepts (so a stage 2 can exist); the initializer list discipline its static tables rely on holds for all 399 histories of up to 3 nested/disjoint initializers; nothing in the compiler depends on environment, addresses, hash order or uninitialised constructor fields; hash() reads exactly the key; the instruction-selection table is right for every operator x type (incl. the 64-bit relational arms the compiler\'s own code uses). Byte-identity of stage-1 and stage-2 output is NOT decided (needs the QBE backend and execution).',
  note='Trusts clang 14 front end, lib/eai.py, witness/c02_witness.c, and the rules it shares with C01/C16/C20.',
  design='5/C02'),
 'C07': dict(
  technique='abstract interpretation of init.c:parseinit (scripted token cursor), qbe.c:emitdata/dataitem (output modelled, rendered and decoded) and qbe.c:funcinit/zero (stores modelled as events and replayed on an abstract bit memory) over generated (type, initializer) and init-list families; compared with a reference implementation of the C11 6.7.9 cursor semantics and of the object image',
  text='Decides on finite generated families (non-exhaustive, grammar-driven with a fixed seed): (a) for ~1100 (quick) / ~3500 (thorough) initialisers over 19 object types (nested structs, unions, arrays incl. unknown size, 2-D, bit-fields with unnamed/zero-width neighbours, anonymous members, char arrays) with positional, designated, mixed, overriding, brace-elided, string and struct-valued initialisers, the (bit range -> expression) list parseinit builds equals - as an image and as an ordered, containment-only list - what C11 6.7.9p17-22 prescribes, with the right size for arrays of unknown size and diagnostics for excess initialisers / bad designators; (b) for ~2900 init lists (all bit-field/scalar member words <= 2, samples of 3 and 4, strings with element overrides, address and floating constants) the emitted data definition decodes byte-for-byte to the reference image with the object size and alignment; (c) for the same lists plus aggregate-copy/overlay shapes, the stores funcinit emits leave every member bit with its prescribed value and never read-modify-write unzeroed storage. NOT decided: conversions of the initialising values (C05/C04), constant-expression evaluation of address constants, compound literals and string-literal objects (stringdecl), initialisers the compilers disagree on (braced re-initialisation of a partly initialised subobject: left unjudged and counted).',
  note='Trusts clang 14 front end, lib/eai.py, the models in props/c07.py (token cursor, assignexpr/exprassign as identity on labelled expressions, printf renderer, funcinst/funcstore events) and the reference ref_list/ref_image/layout_bits (layout validated under C06). One known finding (funcinit re-zeroes the rest of an overlaid initialiser; the repair contradicts two golden tests) is listed in known_findings.json.',
  design='5/C07'),
 'C06': dict(
  technique='abstract interpretation of decl.c:tagspec/addmember/declarator, type.c:typemember/typehasint/mkarraytype and expr.c:builtinfunc(offsetof) over bounded families of member-declaration sequences, enumerator lists, type trees and array declarators built from the compiler\'s static type descriptors; results compared with a psABI layout reference and a C23/LP64 enum reference (both validated once against gcc 12 / clang 14, tools/validate_c06_ref.py)',
  text='Decides for x86-64 SysV: (a) size, alignment, member offsets and bit-field storage unit/bit position for every struct of up to 3 (quick: 2 + 600 of length 3) and union of up to 2 member declarations over an alphabet of 25 member forms (all integer base types x widths 0/1/3/7/8/9/15/16/31/32/33/40/63/64, named/unnamed, plain scalars, nested struct, array, long double); (b) a table of _Alignas/packed cases; (c) the enum type, enumerator values and enumerator types for all enumerator lists of length <= 2 (thorough 3) over 17 boundary values, with and without a fixed underlying type; (d) offsetof through anonymous members / arrays over 5 type trees; (e) array sizes incl. overflow and negative-length diagnostics. NOT decided: longer member sequences, nesting-depth interactions beyond the alphabet, aligned(n) attribute parsing, aarch64/riscv64 (the layout code is target-independent; only the scalar tables differ, covered by C05.f).',
  note='Trusts clang 14 front end, lib/eai.py, the token-cursor / structdecl / condexpr models in props/c06.py, the reference layout()/enum_ref() (validated outside the check against the platform compilers on 4710 layouts and 791 enums, 0 mismatches).',
  design='5/C06'),
 'C01': dict(
  technique='abstract interpretation (partial evaluation of the lowering functions over the static type/operator descriptor domain) + AST table extraction vs C11/QBE oracle tables',
  text='Decides structural clauses only: the instruction-selection, conversion, load/store, truthiness and bit-field shift tables that every compiled program is lowered through are extracted from the current source by an abstract interpreter and compared exhaustively (over the finite descriptor domain) with oracle tables written from C11 and the QBE manual; sibling switches are checked for exhaustiveness. Semantic equivalence of emitted IL for arbitrary programs is NOT decided.',
  note='Trusts clang 14 front end, the E-AI interpreter (lib/eai.py), the oracle tables in props/c01.py (DESIGN Appendix A.1) and the event models of funcinst/mkintconst. The descriptor universe is built as tagspec()/mkpointertype() build it.',
  design='5/C01'),
}
NA = {
}

def main():
    checks = []
    for p in props:
        pid = p['id']
        if pid in CLAIMED:
            c = CLAIMED[pid]
            checks.append({
                'property_id': pid,
                'quick_cmd': './check %s --tier quick' % pid,
                'thorough_cmd': './check %s --tier thorough' % pid,
                'evidence_file': 'evidence/%s.json' % pid,
                'replay_cmd_template': './check %s --replay {path}' % pid,
                'engine': 'static',
                'level_claimed': {'category': 'other', 'text': c['text'], 'design_ref': 'DESIGN.md section ' + c['design']},
                'level_note': c['note'],
                'technique': c['technique'],
            })
    na = []
    for p in props:
        pid = p['id']
        if pid not in CLAIMED:
            na.append({'property_id': pid, 'reason': NA.get(pid, 'check not built yet in this round; planned per DESIGN.md section 5')})
    m = {
        'version': 1,
        'setup_cmd': 'true',
        'hooks': {'guard': 'CPROC_VERIF', 'enable': 'none: static analysis needs no hooks in /repo (no guarded commits)',
                  'baseline_off_cmd': 'cd /repo && make -s all && ./runtests', 'source_commits': [], 'add_only': True},
        'engines': [{'name': 'static', 'path': 'check', 'serves_properties': sorted(CLAIMED),
                     'kind_free_text': 'Python analyses over clang -ast-dump=json of /repo (facts, E-AI abstract interpreter, CFG dataflow, table extraction); nothing from /repo is built or run'}],
        'checks': checks,
        'notes': 'Static analysis only. exit 0 = holds (KNOWN-FINDING lines for listed findings), 1 = VIOLATION, 2 = analysis broken. See DESIGN.md.',
        'not_applicable': na,
    }
    json.dump(m, open(os.path.join(HERE, 'MANIFEST.json'), 'w'), indent=1)

if __name__ == '__main__':
    main()
