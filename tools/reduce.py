#!/usr/bin/env python3
"""DISCOVERY AID ONLY: line-based delta reduction of a difftest.py mismatch (keeps a program interesting while gcc builds it,
UBSan is silent, cproc accepts it and the interpreted IL prints something else than the native run)."""
import os, subprocess, sys, tempfile, shutil
sys.path.insert(0, os.path.dirname(os.path.abspath(__file__)))
import qbei

CPROC = os.environ.get('CPROC_QBE', '/repo/cproc-qbe')


def interesting(src, d):
    cf = os.path.join(d, 'r.c'); open(cf, 'w').write(src)
    r = subprocess.run(['gcc', '-w', '-O0', '-fsanitize=undefined,float-cast-overflow,address', '-fno-sanitize-recover=all', '-o', os.path.join(d, 'r'), cf], capture_output=True, text=True)
    if r.returncode: return False
    try:
        n = subprocess.run([os.path.join(d, 'r')], capture_output=True, text=True, timeout=10)
    except subprocess.TimeoutExpired:
        return False
    if 'runtime error' in n.stderr or 'AddressSanitizer' in n.stderr or n.returncode < 0: return False
    # reject programs that depend on indeterminate values: compare with an -O2 build
    r2 = subprocess.run(['gcc', '-w', '-O2', '-o', os.path.join(d, 'r2'), cf], capture_output=True, text=True)
    if r2.returncode: return False
    n2 = subprocess.run([os.path.join(d, 'r2')], capture_output=True, text=True, timeout=10)
    if n2.stdout != n.stdout: return False
    c = subprocess.run([CPROC, cf], capture_output=True, text=True)
    if c.returncode != 0: return False
    try:
        rv, out = qbei.run(c.stdout, max_steps=20_000_000)
    except Exception:
        return False
    return out != n.stdout


def reduce(src):
    d = tempfile.mkdtemp(prefix='red-')
    try:
        if not interesting(src, d): print('not interesting to begin with'); return src
        lines = src.split('\n')
        n = 2
        while len(lines) >= 2:
            chunk = max(1, len(lines) // n)
            removed = False
            i = 0
            while i < len(lines):
                cand = lines[:i] + lines[i + chunk:]
                if interesting('\n'.join(cand), d):
                    lines = cand; removed = True
                else:
                    i += chunk
            if not removed:
                if chunk == 1: break
                n = min(len(lines), n * 2)
            sys.stderr.write('lines: %d (chunk %d)\n' % (len(lines), chunk))
        return '\n'.join(lines)
    finally:
        shutil.rmtree(d, ignore_errors=True)


if __name__ == '__main__':
    out = reduce(open(sys.argv[1]).read())
    open(sys.argv[2], 'w').write(out)
