#!/usr/bin/env python3
"""DISCOVERY AID ONLY - not a registered check.  Expression typing differential: random expressions over variables of all
arithmetic types, pointers, arrays, structs and bit-fields are only *typed* (operand of _Generic, never evaluated, so no
run-time undefined behaviour matters): the selected association is compared between gcc and cproc (through tools/qbei.py),
and so is which expressions each compiler rejects.  It asks of the whole front end what rule C05.j asks with a reference
type checker written from the standard.

usage: difftest10.py <first seed> <count> [-j N]"""
import os, random, re, subprocess, sys, tempfile, shutil
sys.path.insert(0, os.path.dirname(os.path.abspath(__file__)))
import qbei
CPROC = os.environ.get('CPROC_QBE', '/repo/cproc-qbe')

SCALARS = ['_Bool', 'char', 'signed char', 'unsigned char', 'short', 'unsigned short', 'int', 'unsigned', 'long', 'unsigned long', 'long long', 'unsigned long long', 'float', 'double']
IDS = [('_Bool', 1), ('char', 2), ('signed char', 3), ('unsigned char', 4), ('short', 5), ('unsigned short', 6), ('int', 7), ('unsigned', 8), ('long', 9), ('unsigned long', 10), ('long long', 11), ('unsigned long long', 12),
       ('float', 13), ('double', 14), ('int *', 20), ('const int *', 21), ('char *', 22), ('const char *', 23), ('void *', 24), ('long *', 25), ('double *', 26), ('struct S', 27), ('struct S *', 28), ('int (*)[3]', 29),
       ('int **', 30), ('unsigned char *', 31), ('short *', 32), ('int (*)(int)', 33), ('const void *', 34), ('unsigned *', 36), ('float *', 37), ('const struct S *', 38), ('_Bool *', 39), ('struct S **', 40),
       ('unsigned long *', 41), ('long long *', 42), ('signed char *', 43), ('unsigned short *', 44), ('unsigned long long *', 45), ('long double', 51), ('const struct S **', 52), ('struct S (*)(void)', 53), ('unsigned short', 6 + 100) if False else ('int (*)[3][1]', 54), ('char (*)[5]', 55), ('char (*)[4]', 56), ('int (*)[2]', 60), ('unsigned short *', 61) if False else ('int *const *', 62), ('char (*)[2]', 63), ('const int (*)[3]', 64), ('unsigned int (*)[2]', 65), ('struct S (*)[2]', 57), ('unsigned char **', 58), ('const double *', 47), ('char **', 48), ('int (*)[2][3]', 49), ('int (**)(int)', 50)]

PRE = 'int printf(const char *, ...);\nstruct S { int m; unsigned bf3 : 3; int sb : 7; unsigned bf32 : 32; long lm; char ca[4]; struct S *next; double dm; unsigned char uc; };\nenum E { E0, E1 = 5 };\ntypedef enum E ET;\n' + \
      ''
# constraint violations clang only warns about by default
CONSTRAINTS = ['pointer-integer-compare', 'int-conversion', 'incompatible-pointer-types', 'pointer-type-mismatch', 'conditional-type-mismatch', 'compare-distinct-pointer-types', 'ordered-compare-function-pointers',
               'incompatible-pointer-types-discards-qualifiers', 'pointer-arith', 'incompatible-function-pointer-types', 'void-ptr-dereference', 'gnu-pointer-arith']
ASSOC = ', '.join('%s: %d' % (t, n) for t, n in IDS) + ', default: 99'

DECLS = ''.join('%s v%d;\n' % (t, i) for i, t in enumerate(SCALARS)) + 'int *pi; const int *pci; char *pc; const char *pcc; void *pv; long *pl; double *pd; struct S s, *ps, as[2]; const struct S cs; int ai[3]; int aai[2][3]; char ac[5]; int fn(int); int (*pfn)(int); struct S fs(void); struct S *fps(void); long double vld; enum E en; const int ci = 1; unsigned char *puc; int **ppi;\n'

ATOMS = ['v%d' % i for i in range(len(SCALARS))] + ['pi', 'pci', 'pc', 'pcc', 'pv', 'pl', 'pd', 's', 'ps', 'as', 'cs', 'ai', 'aai', 'ac', 'fn', 'pfn', 'en', 'ci', 'puc', 'ppi',
         's.m', 's.bf3', 's.sb', 's.bf32', 's.lm', 's.ca', 's.next', 's.dm', 's.uc', 'ps->m', 'ps->bf3', 'ps->next', 'as[1].lm', 'cs.m', 'ai[1]', 'aai[1]', 'aai[1][2]', 'ac[0]', 'E1', 'fn(1)', 'pfn(2)', '*pi', '*pc', '*ps', '*ppi',
         '0', '1', '1u', '1L', '1uL', '1LL', '1uLL', '2147483648', '0x80000000', '0xffffffffff', "'a'", "L'a'", '"s"', '1.0', '1.0f', '(void *)0', '(char)1', '(short)1', '(unsigned char)1', 'sizeof(int)', '1 == 2', '!v6', '-v1', '~v4', '+v5', '&v6', '&s', '&ai', '&ai[0]', '&fn', '*&v9', '(long)pi', '(int *)pv',
         '(struct S){0}', '(struct S){0}.m', '(int[]){1, 2}', '(int[2]){1}[0]', '&(int){3}', '(char){1}', 'fs()', 'fs().m', 'fs().ca', 'fs().bf3', 'fps()->lm', 'fps()->ca', '*fps()', 'vld', '1.0L', '_Alignof(long)', 'sizeof(struct S)', 'sizeof ai',
         'sizeof(char[3])', '&*pi', '*&ai', '&ai[1]', '&aai[1]', '*aai', '**aai', '"str"[1]', '*"s"', 'u\'a\'', 'U\'a\'', 'L"w"', '__builtin_offsetof(struct S, lm)', '(_Bool)2', '(enum E)1',
         '(void)0', 'fn', '*fn', '&*fn', '(*pfn)(1)', '(&fn)(1)', 'v13 ? 1 : 2.0f', 'cs', 'cs.next', '&cs', '&cs.m', 's.next->next', '*s.next', 'as[0]', '&as[1]', 'as + 1', '(const int *)pi', '(const char *)pc']
BIN = ['+', '-', '*', '/', '%', '<<', '>>', '&', '|', '^', '<', '>', '<=', '>=', '==', '!=', '&&', '||', ',']
ASSIGN = ['=', '+=', '-=', '*=', '/=', '%=', '<<=', '>>=', '&=', '|=', '^=']


def gen(r, d):
    if d == 0 or r.random() < 0.3: return r.choice(ATOMS)
    k = r.random()
    if k < 0.5: return '(%s %s %s)' % (gen(r, d - 1), r.choice(BIN), gen(r, d - 1))
    if k < 0.6: return '(%s ? %s : %s)' % (gen(r, d - 1), gen(r, d - 1), gen(r, d - 1))
    if k < 0.7: return '%s(%s)' % (r.choice(['-', '~', '!', '+', '*', '&', 'sizeof ', '++', '--']), gen(r, d - 1))
    if k < 0.76: return '(%s)%s' % (gen(r, d - 1), r.choice(['++', '--']))
    if k < 0.84: return '(%s)(%s)' % (r.choice(SCALARS + ['int *', 'void *', 'char *', 'long', 'enum E', 'void']), gen(r, d - 1))
    if k < 0.9: return '(%s %s %s)' % (r.choice(['v6', 'v9', 'v3', 'v13', 'pi', 'pc', 's.m', 's.bf3', '*pi', 'ai[1]', 's.lm', 'v0', 'pv', 'en']), r.choice(ASSIGN), gen(r, d - 1))
    if k < 0.95: return '%s[%s]' % (r.choice(['ai', 'pi', 'pc', 'aai', 'as', 'ps', 'ac', 'ppi', '"str"']), gen(r, d - 1))
    return '(*%s)' % gen(r, d - 1)


def build(exprs):
    return PRE + DECLS + 'int main(void) {\n' + ''.join('\tprintf("%%d %%d\\n", %d, _Generic((%s), %s));\n' % (i, e, ASSOC) for i, e in enumerate(exprs)) + '\treturn 0;\n}\n'


def rejected_lines(cmd, src, d, first_line):
    p = os.path.join(d, 'p.c'); open(p, 'w').write(src)
    r = subprocess.run(cmd + [p], capture_output=True, text=True)
    bad = set()
    for m in re.finditer(r'p\.c:(\d+):\d+: (?:error|warning: ordered comparison between pointer and integer)', r.stderr): bad.add(int(m.group(1)) - first_line)
    return r.returncode != 0, bad, r


def run_one(seed):
    r = random.Random(seed)
    exprs = [gen(r, r.randint(1, 3)) for _ in range(40)]
    d = tempfile.mkdtemp(prefix='dt10-')
    try:
        first = build(exprs).split('\n').index('int main(void) {') + 2
        # gcc: find all rejected expressions (gcc reports every error)
        failed, gbad, _ = rejected_lines(['clang', '-std=c2x', '-fsyntax-only', '-ferror-limit=0'] + ['-Werror=' + x for x in CONSTRAINTS], build(exprs), d, first)
        # cproc stops at the first error: iterate
        cbad = set(); cur = list(range(len(exprs)))
        while True:
            src = build([exprs[i] for i in cur])
            p = os.path.join(d, 'q.c'); open(p, 'w').write(src)
            c = subprocess.run([CPROC, p], capture_output=True, text=True)
            if c.returncode == 0: break
            m = re.search(r'q\.c:(\d+):\d+: error', c.stderr)
            if not m:
                return seed, [('CRASH', c.stderr.strip()[-200:], exprs[cur[0]] if cur else '')]
            k = int(m.group(1)) - first
            if not (0 <= k < len(cur)): return seed, [('LOC', c.stderr.strip()[:200], '')]
            cbad.add(cur[k]); del cur[k]
        out = []
        for i in sorted(gbad ^ cbad):
            out.append(('ref-rejects-only' if i in gbad else 'cproc-rejects-only', exprs[i], ''))
        good = [i for i in range(len(exprs)) if i not in gbad and i not in cbad]
        if good:
            src = build([exprs[i] for i in good])
            p = os.path.join(d, 'g.c'); open(p, 'w').write(src)
            g = subprocess.run(['clang', '-std=c2x', '-w', '-o', os.path.join(d, 'g'), p], capture_output=True, text=True)
            if g.returncode: return seed, out + [('gcc-second-pass', g.stderr[:200], '')]
            n = subprocess.run([os.path.join(d, 'g')], capture_output=True, text=True).stdout
            c = subprocess.run([CPROC, p], capture_output=True, text=True)
            if c.returncode: return seed, out + [('cproc-second-pass', c.stderr[:200], '')]
            try:
                rv, o = qbei.run(c.stdout, max_steps=5_000_000)
            except Exception as e:
                return seed, out + [('il-error', str(e)[:200], '')]
            for a, b, i in zip(n.split('\n'), o.split('\n'), good):
                if a != b: out.append(('TYPE', exprs[i], 'clang %s, cproc %s' % (a.split()[1], b.split()[1] if len(b.split()) > 1 else b)))
        return seed, out
    finally:
        shutil.rmtree(d, ignore_errors=True)


def main():
    first, count = int(sys.argv[1]), int(sys.argv[2])
    jobs = int(sys.argv[sys.argv.index('-j') + 1]) if '-j' in sys.argv else 8
    from concurrent.futures import ProcessPoolExecutor
    stats = {}; shown = {}
    with ProcessPoolExecutor(jobs) as ex:
        for seed, out in ex.map(run_one, range(first, first + count), chunksize=2):
            for kind, e, det in out:
                stats[kind] = stats.get(kind, 0) + 1
                if shown.get(kind, 0) < 40:
                    shown[kind] = shown.get(kind, 0) + 1
                    print('seed %d %s: %s   %s' % (seed, kind, e, det), flush=True)
    print(stats)


if __name__ == '__main__':
    main()
