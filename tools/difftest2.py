#!/usr/bin/env python3
"""DISCOVERY AID ONLY - not a registered check.  "Operator matrix" differential: for every ordered pair of arithmetic types
and every operator, evaluate the operator over tables of boundary values (a) at run time through variables and (b) as
constant expressions the compiler folds, natively (gcc) and through tools/qbei.py on cproc's IL.  Value tables are
chosen per operator class so that no evaluation is undefined.

usage: difftest2.py [-j N] [--only T1,T2]
"""
import itertools, os, subprocess, sys, tempfile, shutil
sys.path.insert(0, os.path.dirname(os.path.abspath(__file__)))
import qbei
from difftest import ITYPES, FTYPES, CPROC

ALL = list(ITYPES) + FTYPES
TAG = {t: t.replace(' ', '_').replace('_Bool', 'bool') for t in ALL}

PRE = r'''
int printf(const char *, ...);
typedef unsigned long long u64;
static u64 chk = 14695981039346656037ull;
static void mix(u64 v) { chk = (chk ^ v) * 1099511628211ull; chk ^= chk >> 29; }
static void mixd(double x) { mix(x != x ? 99u : x > 1e18 ? 98u : x < -1e18 ? 97u : (u64)(long long)(x * 8.0)); }
static void done(int n) { printf("%d %llu\n", n, chk); chk = 14695981039346656037ull; }
'''


def lit(t, v):
    if t in FTYPES:
        s = repr(float(v))
        return s + ('f' if t == 'float' else '')
    bits, signed, rank = ITYPES[t]
    if t == '_Bool': return '(_Bool)%d' % v
    if v == -(1 << 63): core = '(-9223372036854775807LL - 1)'
    elif v == -(1 << 31): core = '(-2147483647 - 1)'
    else:
        suf = ('u' if not signed and rank >= 3 else '') + ('LL' if rank >= 4 else '')
        core = '%d%s' % (v, suf) if v >= 0 else '(%d%s)' % (v, suf)
    return '(%s)%s' % (t, core) if rank < 3 else core


def edge(t):
    if t in FTYPES:
        return [0.0, 1.0, -1.0, 0.5, -0.5, 2.0, 3.75, -7.25, 255.0, 65536.0, 1e9, -1e9, 16777217.0, 0.1, 1e-3, 123456.789]
    bits, signed, rank = ITYPES[t]
    if t == '_Bool': return [0, 1]
    if signed:
        m = 1 << (bits - 1)
        return sorted(v for v in {0, 1, -1, 2, -2, 7, -8, 100, -100, 127, -128, m - 1, -m, m - 2, -m + 1, (m >> 1), -(m >> 1)} if -m <= v < m)
    m = 1 << bits
    return sorted(v for v in {0, 1, 2, 3, 7, 8, 100, 127, 128, 255, m - 1, m - 2, m >> 1, (m >> 1) - 1, (m >> 1) + 1} if 0 <= v < m)


def small(t):
    """values whose sums, differences and products stay inside every signed type they can be promoted to"""
    if t in FTYPES: return [0.0, 1.0, -1.0, 0.5, 2.0, 3.75, -7.25, 100.0, 1e-3, 46340.0]
    bits, signed, rank = ITYPES[t]
    if t == '_Bool': return [0, 1]
    vs = [0, 1, 2, 3, 7, 11, 100, 127, 255, 1000, 32767, 46340]
    if signed: vs += [-1, -2, -7, -100, -128, -1000, -32768, -46340]
    lo, hi = (-(1 << (bits - 1)), (1 << (bits - 1)) - 1) if signed else (0, (1 << bits) - 1)
    return sorted({v for v in vs if lo <= v <= hi})


def shiftcounts(t):
    return [0, 1, 2, 7, 8, 15, 16, 31]     # valid for every promoted left operand (>= 32 bits)


def table(name, t, vals):
    return 'static %s %s[%d] = {%s};\n' % (t, name, len(vals), ', '.join(lit(t, v) for v in vals))


BINOPS = ['+', '-', '*', '/', '%', '<<', '>>', '&', '|', '^', '<', '>', '<=', '>=', '==', '!=', '&&', '||', '?:', ',']
UNOPS = ['-', '~', '!', '+', 'cast']


def gen_pair(a, b):
    """program text for the ordered type pair (a, b); returns (text, number of sections)"""
    out = [PRE]
    A, B = TAG[a], TAG[b]
    fa, fb = a in FTYPES, b in FTYPES
    ea, eb = edge(a), edge(b)
    sa, sb = small(a), small(b)
    nzb = [v for v in sb if v != 0] or [1]
    nzeb = [v for v in eb if v != 0] or [1]
    # signed division overflow: keep INT_MIN / LONG_MIN out of the dividend table
    da = [v for v in ea if fa or v not in (-(1 << 31), -(1 << 63))]
    # non-negative values for the left operand of << (signed left shift of a negative value is undefined); small enough not to overflow
    sha = [v for v in sa if v >= 0 and v <= 32767] if not fa else []
    shra = [v for v in ea] if not fa else []
    out.append(table('ea', a, ea)); out.append(table('eb', b, eb)); out.append(table('sa', a, sa)); out.append(table('sb', b, sb))
    out.append(table('nzb', b, nzb)); out.append(table('nzeb', b, nzeb)); out.append(table('da', a, da))
    if sha: out.append(table('sha', a, sha))
    if shra: out.append(table('shra', a, shra))
    if not fb: out.append(table('cnt', b, [v for v in shiftcounts(b) if b != '_Bool' or v < 2]))
    body = []
    consts = []
    sec = 0
    def loop(ta, na, tb, nb, expr, isf):
        nonlocal sec
        sec += 1
        body.append('\t{ int i, j; for (i = 0; i < %d; i++) for (j = 0; j < %d; j++) %s(%s); done(%d); }\n' % (na, nb, 'mixd' if isf else 'mix', expr.replace('@A', '%s[i]' % ta).replace('@B', '%s[j]' % tb), sec))
    def constsec(va, vb, fmt, isf, limit=60):
        """the same operator over literal operands: folded by the compiler"""
        nonlocal sec
        sec += 1
        pairs = list(itertools.product(va, vb))
        step = max(1, len(pairs) // limit)
        lines = ''.join('\t%s(%s);\n' % ('mixd' if isf else 'mix', fmt.replace('@A', lit(a, x)).replace('@B', lit(b, y))) for x, y in pairs[::step])
        consts.append(lines + '\tdone(%d);\n' % sec)
    res_f = fa or fb
    for op in BINOPS:
        if op in ('+', '-', '*'):
            loop('sa', len(sa), 'sb', len(sb), '(@A) %s (@B)' % op, res_f); constsec(sa, sb, '(@A) %s (@B)' % op, res_f)
        elif op == '/':
            loop('da' if not res_f else 'ea', len(da) if not res_f else len(ea), 'nzeb' if not fb else 'nzb', len(nzeb) if not fb else len(nzb), '(@A) / (@B)', res_f)
            constsec(da if not res_f else sa, nzeb if not fb else nzb, '(@A) / (@B)', res_f)
        elif op == '%':
            if res_f: continue
            loop('da', len(da), 'nzeb', len(nzeb), '(@A) % (@B)', False); constsec(da, nzeb, '(@A) % (@B)', False)
        elif op in ('<<', '>>'):
            if fa or fb: continue
            cn = [v for v in shiftcounts(b) if b != '_Bool' or v < 2]
            if op == '<<':
                if not sha: continue
                # keep the result representable: value <= 32767 shifted by at most 15 for signed promoted types
                cn2 = [c for c in cn if c <= 15]
                out.append(table('cnt2', b, cn2)) if 'cnt2' not in ''.join(out) else None
                loop('sha', len(sha), 'cnt2', len(cn2), '(@A) << (@B)', False); constsec(sha, cn2, '(@A) << (@B)', False)
            else:
                loop('shra', len(shra), 'cnt', len(cn), '(@A) >> (@B)', False); constsec(shra, cn, '(@A) >> (@B)', False)
        elif op in ('&', '|', '^'):
            if fa or fb: continue
            loop('ea', len(ea), 'eb', len(eb), '(@A) %s (@B)' % op, False); constsec(ea, eb, '(@A) %s (@B)' % op, False)
        elif op in ('<', '>', '<=', '>=', '==', '!=', '&&', '||'):
            loop('ea', len(ea), 'eb', len(eb), '(@A) %s (@B)' % op, False); constsec(ea, eb, '(@A) %s (@B)' % op, False)
        elif op == '?:':
            loop('ea', len(ea), 'eb', len(eb), '(@B) ? (@A) : (@B)', res_f); constsec(ea, eb, '(@B) ? (@A) : (@B)', res_f)
            loop('ea', len(ea), 'eb', len(eb), '(@A) ? (@A) : (@B)', res_f)
        elif op == ',':
            loop('ea', len(ea), 'eb', len(eb), '((@A), (@B))', fb)
    # conversions a -> b (explicit cast and by assignment), with values in range when the source is floating
    if fa and not fb:
        bits, signed, rank = ITYPES[b]
        lo, hi = (-(1 << (bits - 1)), (1 << (bits - 1)) - 1) if signed else (0, (1 << bits) - 1)
        cv = [v for v in ea if (lo - 1 < v < hi + 1) and (b != '_Bool' or True)]
        if b == '_Bool': cv = ea
        out.append(table('cv', a, cv))
        loop('cv', len(cv), 'eb', 1, '(%s)(@A)' % b, False); constsec(cv, eb[:1], '(%s)(@A)' % b, False)
    else:
        loop('ea', len(ea), 'eb', 1, '(%s)(@A)' % b, fb); constsec(ea, eb[:1], '(%s)(@A)' % b, fb)
    # assignment conversion and compound assignment (stored back in the type of a)
    for op in ('+=', '-=', '*=', '&=', '|=', '^=', '<<=', '>>=', '/=', '%='):
        if op in ('&=', '|=', '^=', '<<=', '>>=', '%=') and (fa or fb): continue
        if a == '_Bool' and op in ('<<=', '>>='): pass
        if op in ('+=', '-=', '*='):
            ta, na, tb, nb = 'sa', len(sa), 'sb', len(sb)
            if fb and not fa: continue          # result converted from floating to integer: range not controlled here
        elif op in ('/=', '%='):
            if fb and not fa: continue
            ta, na, tb, nb = 'da', len(da), ('nzeb' if not fb else 'nzb'), (len(nzeb) if not fb else len(nzb))
        elif op == '<<=':
            if not sha: continue
            ta, na, tb, nb = 'sha', len(sha), 'cnt2', len([c for c in shiftcounts(b) if c <= 15 and (b != '_Bool' or c < 2)])
            if 'cnt2' not in ''.join(out): continue
        elif op == '>>=':
            ta, na, tb, nb = 'shra', len(shra), 'cnt', len([v for v in shiftcounts(b) if b != '_Bool' or v < 2])
        else:
            ta, na, tb, nb = 'ea', len(ea), 'eb', len(eb)
        # a narrow or unsigned left operand wraps on the store (implementation-defined, the same everywhere); a signed int/long one must not overflow: tables are small enough
        sec += 1
        body.append('\t{ int i, j; for (i = 0; i < %d; i++) for (j = 0; j < %d; j++) { %s t = %s[i], t2 = %s[i]; t %s %s[j]; %s(t); %s(t2 %s %s[j]); %s(t2); } done(%d); }\n' % (
            na, nb, a, ta, ta, op, tb, 'mixd' if fa else 'mix', 'mixd' if fa else 'mix', op, tb, 'mixd' if fa else 'mix', sec))
    # unary operators and ++/--
    for op in UNOPS:
        if op == 'cast': continue
        if op == '~' and fa: continue
        vals = 'sa' if op == '-' else 'ea'
        n = len(sa) if op == '-' else len(ea)
        isf = fa and op != '!'
        sec += 1
        body.append('\t{ int i; for (i = 0; i < %d; i++) %s(%s(%s[i])); done(%d); }\n' % (n, 'mixd' if isf else 'mix', op, vals, sec))
    if a != '_Bool':
        for form in ('t++', '++t', 't--', '--t'):
            sec += 1
            body.append('\t{ int i; for (i = 0; i < %d; i++) { %s t = sa[i]; %s(%s); %s(t); } done(%d); }\n' % (len(sa), a, 'mixd' if fa else 'mix', form, 'mixd' if fa else 'mix', sec))
    out.append('int main(void) {\n' + ''.join(body) + ''.join(consts) + '\treturn 0;\n}\n')
    return ''.join(out), sec


def run_pair(pair):
    a, b = pair
    src, nsec = gen_pair(a, b)
    d = tempfile.mkdtemp(prefix='dt2-')
    try:
        cf = os.path.join(d, 'p.c'); open(cf, 'w').write(src)
        r = subprocess.run(['gcc', '-w', '-O0'] + (['-funsigned-char'] if os.environ.get('CPROC_TARGET') in ('aarch64', 'riscv64') else []) + [ '-fsanitize=undefined,float-cast-overflow', '-o', os.path.join(d, 'p'), cf], capture_output=True, text=True)
        if r.returncode: return pair, 'gen-error', r.stderr[:500], src
        n = subprocess.run([os.path.join(d, 'p')], capture_output=True, text=True, timeout=120)
        if 'runtime error' in n.stderr: return pair, 'gen-ub', n.stderr[:400], src
        c = subprocess.run([CPROC] + (['-t', os.environ['CPROC_TARGET']] if os.environ.get('CPROC_TARGET') else []) + [cf], capture_output=True, text=True)
        if c.returncode: return pair, 'cproc-reject', c.stderr[:400], src
        try:
            rv, out = qbei.run(c.stdout, max_steps=200_000_000)
        except Exception as e:
            return pair, 'il-' + type(e).__name__, str(e)[:300], src
        if out != n.stdout:
            nl, ol = n.stdout.split('\n'), out.split('\n')
            bad = [x.split()[0] for x, y in zip(nl, ol) if x != y]
            return pair, 'MISMATCH', 'sections %s' % bad[:12], src
        return pair, 'ok', '', src
    finally:
        shutil.rmtree(d, ignore_errors=True)


def main():
    jobs = int(sys.argv[sys.argv.index('-j') + 1]) if '-j' in sys.argv else 8
    pairs = list(itertools.product(ALL, ALL))
    if '--only' in sys.argv:
        a, b = sys.argv[sys.argv.index('--only') + 1].split(',')
        pairs = [(a, b)]
    keep = '/tmp/dt2'; os.makedirs(keep, exist_ok=True)
    from concurrent.futures import ProcessPoolExecutor
    stats = {}
    with ProcessPoolExecutor(jobs) as ex:
        for pair, status, detail, src in ex.map(run_pair, pairs):
            stats[status] = stats.get(status, 0) + 1
            if status != 'ok':
                print('%s x %s: %s %s' % (pair[0], pair[1], status, detail.replace('\n', ' ')[:300]), flush=True)
                open(os.path.join(keep, '%s__%s.c' % (TAG[pair[0]], TAG[pair[1]])), 'w').write(src)
    print(stats)


if __name__ == '__main__':
    main()
