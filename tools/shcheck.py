#!/usr/bin/env python3
"""DISCOVERY AID ONLY - not a registered check (it runs a shell).  Validates lib/shi.py, the interpreter of the sh subset
`configure` is written in (rule C17.f), against the real /bin/sh: /repo/configure is run both ways on a list of command
lines in a scratch directory and the exit status and the generated config.h / config.mk must be byte-identical.

usage: shcheck.py"""
import os, subprocess, sys, tempfile, shutil
sys.path.insert(0, os.path.join(os.path.dirname(os.path.abspath(__file__)), '..', 'lib'))
import shi

SETS = [[], ['--with-ldso='], ['--with-ldso=/a b'], ['--target=riscv64-linux-gnu', '--with-gcc-libdir=/g'], ['--target=aarch64-linux-musl'],
        ['--target=x86_64-linux-musl', '--with-cpp=mycpp', '--with-as=myas', '--with-ld=myld', '--with-qbe=myqbe'], ['--target=x86_64-unknown-freebsd13'],
        ['--target=x86_64-unknown-openbsd7', '--with-ldso='], ['--target=aarch64-unknown-netbsd'], ['--target=mips-linux-gnu', '--with-gcc-libdir=/g'], ['--target=riscv64-linux-gnu'],
        ['--bogus'], ['--host=aarch64-linux-gnu'], ['--prefix=/opt', 'CC=cc', 'CFLAGS=-O2'], ['--target=aarch64-linux-gnu', '--with-gcc-libdir=/g', '--with-ldso=/x'], ['--bindir=/b', '--target=x86_64-linux-musl']]


def main():
    repo = os.environ.get('VERIF_REPO', '/repo')
    text = open(os.path.join(repo, 'configure')).read()
    host = subprocess.run(['cc', '-dumpmachine'], capture_output=True, text=True).stdout
    crt = subprocess.run(['cc', '-print-file-name=crtbegin.o'], capture_output=True, text=True).stdout
    def cc(argv):
        if '-dumpmachine' in argv: return 0, host
        if any(a.startswith('-print-file-name=') for a in argv): return 0, crt
        return 1, ''
    d = tempfile.mkdtemp(prefix='shcheck-')
    bad = 0
    try:
        shutil.copy(os.path.join(repo, 'configure'), d)
        for a in SETS:
            sh = shi.Shell(text, commands={'cc': cc}); st = sh.run(a)
            for f in ('config.h', 'config.mk'):
                if os.path.exists(os.path.join(d, f)): os.remove(os.path.join(d, f))
            r = subprocess.run(['sh', './configure'] + a, capture_output=True, text=True, cwd=d)
            real = {f: (open(os.path.join(d, f)).read() if os.path.exists(os.path.join(d, f)) else None) for f in ('config.h', 'config.mk')}
            mine = {f: sh.files.get(f) for f in ('config.h', 'config.mk')}
            same = st == r.returncode and real == mine
            bad += not same
            print('%-90s %s' % (' '.join(a) or '(no arguments)', 'same' if same else 'DIFFERENT (status %s vs %s)' % (st, r.returncode)))
    finally:
        shutil.rmtree(d, ignore_errors=True)
    sys.exit(1 if bad else 0)


if __name__ == '__main__':
    main()
