#!/usr/bin/env python3
"""DISCOVERY AID ONLY - not a registered check.  Literal differential: random character constants and string literals (all
prefixes, escapes, universal character names, UTF-8 source characters, concatenation) - their values, element values and
sizes natively (gcc) and through tools/qbei.py on cproc's IL.

usage: difftest6.py <first seed> <count>"""
import os, random, subprocess, sys, tempfile, shutil
sys.path.insert(0, os.path.dirname(os.path.abspath(__file__)))
import qbei
CPROC = os.environ.get('CPROC_QBE', '/repo/cproc-qbe')
PRE = r'''
int printf(const char *, ...);
typedef unsigned long long u64;
static u64 chk = 14695981039346656037ull;
static void mix(u64 v) { chk = (chk ^ v) * 1099511628211ull; chk ^= chk >> 29; }
static void done(int n) { printf("%d %llu\n", n, chk); chk = 14695981039346656037ull; }
'''

def piece(r, wide):
    k = r.random()
    if k < 0.35: return r.choice('abcXYZ 019_+-*/(){}[]<>,.;:!?#%&|^~=')
    if k < 0.5: return r.choice(['\\n', '\\t', '\\\\', "\\'", '\\"', '\\a', '\\b', '\\f', '\\r', '\\v', '\\?', '\\0'])
    if k < 0.62: return '\\%o' % r.randint(0, 255 if not wide else 511)
    if k < 0.74: return '\\x%x' % (r.randint(0, 255) if not wide else r.choice([r.randint(0, 255), r.randint(256, 65535)]))
    # universal character names are not implemented by cproc (diagnosed as invalid escape sequences): left out
    return r.choice(['é', 'α', '€', '中', '😀'])

def main():
    first, count = int(sys.argv[1]), int(sys.argv[2])
    stats = {}
    d = tempfile.mkdtemp(prefix='dt6-')
    for seed in range(first, first + count):
        r = random.Random(seed)
        body = ''
        for n in range(1, 13):
            pfx = r.choice(['', '', 'L', 'u', 'U', 'u8'])
            wide = pfx in ('L', 'u', 'U')
            if r.random() < 0.35:
                # character constant (single character; u8 only ASCII)
                p = piece(r, wide)
                while p in ("'", '"') or (pfx in ('', 'u8') and (p.startswith(('\\u', '\\U')) or ord(p[0]) > 127)) or (pfx == 'u' and (p.startswith('\\U0001') or p.startswith('\\U0010') or p == '😀')) or p == "\\0" and False:
                    p = piece(r, wide)
                if p == "'": p = "\\'"
                body += "\tmix(%s'%s'); mix(sizeof %s'%s'); mix(%s'%s' < 0);\n" % (pfx, p, pfx, p, pfx, p)
            else:
                parts = []
                for _ in range(r.randint(1, 3)):
                    s = ''.join(piece(r, wide) for _ in range(r.randint(0, 6))).replace('"', '\\"') if True else ''
                    s = s.replace('\\\\"', '\\"')
                    if not wide: s = ''.join(c for c in [s])      # narrow strings may contain UTF-8 and UCNs (encoded as UTF-8)
                    ppfx = r.choice([pfx, pfx, ''])
                    parts.append('%s"%s"' % (ppfx, s))
                # an octal/hex escape followed by a digit in the next piece must not merge: that is what concatenation after escapes tests
                lit = ' '.join(parts)
                et = {'': 'char', 'u8': 'char', 'L': 'int', 'u': 'unsigned short', 'U': 'unsigned'}[pfx if any(x.startswith(pfx) and pfx for x in parts) or pfx == '' else '']
                eff = pfx if any(x.startswith(pfx + '"') for x in parts) else ''
                et = {'': 'char', 'u8': 'char', 'L': 'int', 'u': 'unsigned short', 'U': 'unsigned'}[eff]
                body += '\t{ static const %s s[] = %s; unsigned i; mix(sizeof s); for (i = 0; i < sizeof s / sizeof s[0]; i++) mix(s[i]); mix(sizeof(%s)); mix((unsigned char)(%s)[0]); }\n' % (et, lit, lit, lit)
            body += '\tdone(%d);\n' % n
        src = PRE + 'int main(void) {\n' + body + '\treturn 0;\n}\n'
        f = os.path.join(d, 'p.c'); open(f, 'w', encoding='utf-8').write(src)
        g = subprocess.run(['gcc', '-std=c2x', '-w', '-o', os.path.join(d, 'p'), f], capture_output=True, text=True)
        c = subprocess.run([CPROC, f], capture_output=True, text=True, errors='replace')
        if g.returncode:
            st = 'both-reject' if c.returncode else 'gcc-rejects-only'
            det = g.stderr.split('\n')[1][:200] if '\n' in g.stderr else g.stderr[:200]
        elif c.returncode:
            st = 'cproc-rejects-only'; det = c.stderr[:200]
        else:
            n_ = subprocess.run([os.path.join(d, 'p')], capture_output=True, text=True).stdout
            try:
                rv, out = qbei.run(c.stdout, max_steps=20_000_000)
                if out == n_: st = 'ok'; det = ''
                else:
                    bad = [x.split()[0] for x, y in zip(n_.split('\n'), out.split('\n')) if x != y]
                    st = 'MISMATCH'; det = 'sections %s: %s' % (bad[:5], [l.strip()[:160] for l in body.split('\n') if l.strip() and not l.strip().startswith('done')][int(bad[0]) - 1] if bad else '')
            except Exception as e:
                st = 'il-error'; det = str(e)[:200]
        stats[st] = stats.get(st, 0) + 1
        if st not in ('ok', 'both-reject'):
            print('seed %d: %s %s' % (seed, st, det), flush=True)
            shutil.copy(f, '/tmp/dt6-%d.c' % seed)
    print(stats)

if __name__ == '__main__':
    main()
