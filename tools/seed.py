#!/usr/bin/env python3
"""Seeded-mutation bookkeeping.

  seed.py import <dir> <name>    verify a mutation (patch.diff + demo.sh) in a scratch worktree and store it
                                 under /verif/seeded/<name>/
  seed.py run <name>|all [IDs]   apply the patch to /repo, run the given (default: all claimed) checks, undo;
                                 record which checks fired in seeded/<name>/result.json
  seed.py table                  print the detection matrix
"""
import json, os, shutil, subprocess, sys, time

VERIF = os.path.dirname(os.path.dirname(os.path.abspath(__file__)))
SEEDED = os.path.join(VERIF, 'seeded')


def sh(cmd, cwd=None, timeout=600):
    r = subprocess.run(cmd, shell=True, cwd=cwd, capture_output=True, text=True, errors="replace", timeout=timeout)
    return r.returncode, r.stdout + r.stderr


def verify(src, name):
    wt = '/tmp/seedwt-%d' % os.getpid()
    sh('git -C /repo worktree remove --force %s' % wt)
    rc, out = sh('git -C /repo worktree add -q --detach %s HEAD' % wt)
    if rc: raise SystemExit('worktree: ' + out)
    log = {}
    try:
        sh('cp /repo/config.h /repo/config.mk %s/' % wt)
        os.makedirs(os.path.join(wt, 'MUT', 'x'))
        for f in os.listdir(src):
            p = os.path.join(src, f)
            if os.path.isdir(p): shutil.copytree(p, os.path.join(wt, 'MUT', 'x', f))
            else: shutil.copy(p, os.path.join(wt, 'MUT', 'x', f))
        # demos reference MUT/<k>/...; keep the original number as a symlink too
        k = os.path.basename(os.path.normpath(src))
        if k != 'x':
            os.symlink('x', os.path.join(wt, 'MUT', k))
        rc, out = sh('make -s', wt); log['build_orig'] = rc
        rc, out = sh('sh MUT/%s/demo.sh' % k, wt); log['demo_orig'] = rc
        rc, out = sh('git apply MUT/x/patch.diff', wt); log['apply'] = rc
        if rc: log['apply_out'] = out[-400:]
        rc, out = sh('make -s', wt); log['build_mut'] = rc
        rc, out = sh('./runtests 2>&1 | tail -1', wt); log['tests_mut'] = out.strip()
        rc, out = sh('sh MUT/%s/demo.sh' % k, wt); log['demo_mut'] = rc; log['demo_mut_out'] = out[-600:]
    finally:
        sh('git -C /repo worktree remove --force %s' % wt)
        shutil.rmtree(wt, ignore_errors=True)
    ok = log.get('build_orig') == 0 and log.get('demo_orig') == 0 and log.get('apply') == 0 and log.get('build_mut') == 0 \
        and '170/170' in log.get('tests_mut', '') and log.get('demo_mut') != 0
    return ok, log


def cmd_import(src, name):
    ok, log = verify(src, name)
    print(json.dumps(log, indent=1))
    if not ok:
        print('REJECTED: mutation does not satisfy the acceptance conditions'); return 1
    dst = os.path.join(SEEDED, name)
    if os.path.exists(dst): shutil.rmtree(dst)
    shutil.copytree(src, dst)
    meta = {}
    mp = os.path.join(dst, 'meta.json')
    if os.path.exists(mp):
        try: meta = json.load(open(mp))
        except Exception: meta = {'raw': open(mp).read()}
    meta['verified_by_us'] = {
        'ran': 'scratch worktree of /repo HEAD: make; demo (exit 0); git apply patch.diff; make; ./runtests; demo (exit != 0); worktree removed',
        'tests_with_patch': log['tests_mut'], 'demo_exit_original': log['demo_orig'], 'demo_exit_mutated': log['demo_mut'],
        'repo_head': sh('git -C /repo rev-parse --short HEAD')[1].strip(), 'when': time.strftime('%Y-%m-%d %H:%M')}
    meta['original_dir'] = os.path.basename(os.path.normpath(src))
    json.dump(meta, open(mp, 'w'), indent=1)
    print('stored', dst)
    return 0


def claimed():
    m = json.load(open(os.path.join(VERIF, 'MANIFEST.json')))
    return [c['property_id'] for c in m['checks']]


def cmd_run(name, ids):
    names = sorted(os.listdir(SEEDED)) if name == 'all' else [name]
    ids = ids or claimed()
    rc, out = sh('git -C /repo status --porcelain --untracked-files=no')
    if out.strip():
        raise SystemExit('/repo has uncommitted changes; refusing')
    for n in names:
        d = os.path.join(SEEDED, n)
        if not os.path.exists(os.path.join(d, 'patch.diff')): continue
        rc, out = sh('git -C /repo apply %s/patch.diff' % d)
        if rc:
            print(n, 'PATCH DOES NOT APPLY', out[-200:]); continue
        res = {}
        try:
            from concurrent.futures import ThreadPoolExecutor
            def one(pid):
                return pid, sh('./check %s --tier quick' % pid, VERIF, timeout=1800)
            with ThreadPoolExecutor(max_workers=6) as ex:
                outs = list(ex.map(one, ids))
            for pid, (rc, out) in outs:
                fired = [l for l in out.split('\n') if l.startswith('VIOLATION')]
                inst = [l.strip() for l in out.split('\n') if l.startswith('  instance')]
                res[pid] = {'exit': rc, 'violations': len(fired), 'instances': inst[:5],
                            'broken': [l for l in out.split('\n') if l.startswith('ANALYSIS-BROKEN')][:3]}
        finally:
            sh('git -C /repo checkout -- .')
        caught = [p for p, v in res.items() if v['exit'] == 1]
        broken = [p for p, v in res.items() if v['exit'] == 2]
        json.dump({'checks_run': ids, 'caught_by': caught, 'analysis_broken': broken, 'detail': res,
                   'when': time.strftime('%Y-%m-%d %H:%M')}, open(os.path.join(d, 'result.json'), 'w'), indent=1)
        print('%-10s caught_by=%s broken=%s' % (n, caught, broken))
        for p in caught:
            for i in res[p]['instances'][:2]: print('     ', p, i)
    # restore evidence for the unchanged tree
    from concurrent.futures import ThreadPoolExecutor
    with ThreadPoolExecutor(max_workers=6) as ex:
        list(ex.map(lambda pid: sh('./check %s --tier quick' % pid, VERIF, timeout=1800), ids))
    return 0


def matrix_one(n, ids):
    d = os.path.join(SEEDED, n)
    work = '/tmp/seedrepo-%s' % n
    shutil.rmtree(work, ignore_errors=True)
    os.makedirs(work)
    sh('git -C /repo archive %s | tar -x -C %s' % (REPOHEAD[0] or 'HEAD', work))
    sh('cp /repo/config.h /repo/config.mk %s/' % work)
    rc, out = sh('git apply --unsafe-paths --directory=%s %s/patch.diff' % (work, d), cwd='/')
    if rc:
        rc, out = sh('patch -p1 < %s/patch.diff' % d, cwd=work)
    if rc:
        shutil.rmtree(work, ignore_errors=True)
        return n, None
    res = {}
    for pid in ids:
        rc, out = sh('VERIF_REPO=%s ./check %s --tier quick' % (work, pid), SNAP[0] or VERIF, timeout=1800)
        fired = [l for l in out.split('\n') if l.startswith('VIOLATION')]
        inst = [l.strip() for l in out.split('\n') if l.startswith('  instance')]
        res[pid] = {'exit': rc, 'violations': len(fired), 'instances': inst[:5],
                    'broken': [l for l in out.split('\n') if l.startswith('ANALYSIS-BROKEN')][:3]}
    shutil.rmtree(work, ignore_errors=True)
    caught = [p for p, v in res.items() if v['exit'] == 1]
    broken = [p for p, v in res.items() if v['exit'] == 2]
    json.dump({'checks_run': ids, 'caught_by': caught, 'analysis_broken': broken, 'detail': res,
               'ran_on': 'scratch copy of /repo commit %s with patch.diff applied (VERIF_REPO), removed afterwards' % (REPOHEAD[0] or sh('git -C /repo rev-parse HEAD')[1].strip())[:7],
               'when': time.strftime('%Y-%m-%d %H:%M')}, open(os.path.join(d, 'result.json'), 'w'), indent=1)
    return n, (caught, broken)


SNAP = [None]
REPOHEAD = [None]


def cmd_matrix(par=4, only=None):
    from concurrent.futures import ThreadPoolExecutor
    # run the checks from a frozen copy of the verification code, so that /verif can be edited while the matrix runs
    snap = '/tmp/verif-snap-%d' % os.getpid()
    shutil.rmtree(snap, ignore_errors=True); os.makedirs(snap)
    for item in ('check', 'lib', 'props', 'tools', 'baseline', 'witness', 'known_findings.json', 'MANIFEST.json', 'properties.jsonl'):
        src = os.path.join(VERIF, item)
        if os.path.isdir(src): shutil.copytree(src, os.path.join(snap, item), ignore=shutil.ignore_patterns('__pycache__'))
        elif os.path.exists(src): shutil.copy2(src, os.path.join(snap, item))
    SNAP[0] = snap
    REPOHEAD[0] = sh('git -C /repo rev-parse HEAD')[1].strip()
    try:
        return _matrix(par, only)
    finally:
        shutil.rmtree(snap, ignore_errors=True)


def _matrix(par, only):
    from concurrent.futures import ThreadPoolExecutor
    names = sorted(n for n in os.listdir(SEEDED) if os.path.exists(os.path.join(SEEDED, n, 'patch.diff')) and (not only or n in only))
    ids = claimed()
    with ThreadPoolExecutor(max_workers=par) as ex:
        for n, r in ex.map(lambda n: matrix_one(n, ids), names):
            print('%-8s %s' % (n, 'PATCH DOES NOT APPLY' if r is None else 'caught_by=%s broken=%s' % r), flush=True)
    return 0


def cmd_table():
    for n in sorted(os.listdir(SEEDED)):
        d = os.path.join(SEEDED, n)
        rp = os.path.join(d, 'result.json')
        meta = {}
        try: meta = json.load(open(os.path.join(d, 'meta.json')))
        except Exception: pass
        r = json.load(open(rp)) if os.path.exists(rp) else {}
        print('%-8s %-4s caught_by=%-14s %s' % (n, meta.get('property', '?'), ','.join(r.get('caught_by', [])) or '-', (meta.get('title') or '')[:70]))


if __name__ == '__main__':
    a = sys.argv[1:]
    if a[0] == 'import': sys.exit(cmd_import(a[1], a[2]))
    if a[0] == 'run': sys.exit(cmd_run(a[1], a[2:]))
    if a[0] == 'table': sys.exit(cmd_table())
    if a[0] == 'matrix': sys.exit(cmd_matrix(int(a[1]) if len(a) > 1 else 4, a[2:]))
