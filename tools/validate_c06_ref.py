#!/usr/bin/env python3
"""One-off validation of the reference oracles in props/c06.py against the platform compilers (NOT part of any check:
the checks never run compiled code).  Generates struct/union definitions for the alphabet used by C06.a and enum
definitions for C06.c, compiles them with gcc / clang, runs the probe and compares with layout() / enum_ref().
Last run: 4710 layouts + 1099 packed/_Alignas layouts vs gcc 12: 0 mismatches; 791 enums vs clang 14: 0 mismatches in size/alignment/signedness/values
(gcc 12 predates C23 wide enums and rejects INT_MAX+1 increments; clang 14 keeps `int` enumerator types where C23 gives
the enumerated type - cproc and the reference follow C23 6.7.2.2p15)."""
import itertools, os, random, subprocess, sys, tempfile
src = open(os.path.join(os.path.dirname(__file__), '..', 'props', 'c06.py')).read()
ns = {}
exec(src[src.index("TY = {"):src.index("def mtype")], ns)
exec(src[src.index("INTT = {"):src.index("def rule_enum")], ns)
ALPHA, layout, enum_ref, fits = ns['ALPHA'], ns['layout'], ns['enum_ref'], ns['fits']
CT = {'S12': 'struct S12', 'A3': 'A3', 'ldouble': 'long double', 'S16': 'struct S16'}
d = tempfile.mkdtemp(prefix='c06v')
def layouts():
    seqs = []
    for n in (1, 2): seqs += list(itertools.product(ALPHA, repeat=n))
    random.seed(2)
    seqs += random.sample(list(itertools.product(ALPHA, repeat=3)), 3000)
    out = ['#include <stdio.h>', '#include <string.h>', 'struct S12 { int a, b, c; }; struct S16 { long x, y; }; typedef char A3[3];']; calls = []; keys = []
    for si, seq in enumerate(seqs):
        for kw in ('struct', 'union'):
            if kw == 'union' and si >= len(ALPHA) + len(ALPHA) ** 2 + 500: continue
            name = '%s%d' % (kw[0], si); body = ''; nm = []
            for mi, (ty, w, named) in enumerate(seq):
                ct = CT.get(ty, ty)
                if w is None and not named:
                    body += ('struct { long ax%d, ay%d; }; ' if ty == 'S16' else 'struct { int aa%d, ab%d, ac%d; }; ') % ((mi,) * (2 if ty == 'S16' else 3)); nm.append(None)
                elif w is None: body += '%s m%d; ' % (ct, mi); nm.append(('m%d' % mi, False))
                elif named: body += '%s m%d:%d; ' % (ct, mi, w); nm.append(('m%d' % mi, True))
                else: body += '%s :%d; ' % (ct, w); nm.append(None)
            if all(n is None for n in nm): continue
            out.append('%s %s { %s};' % (kw, name, body))
            fn = 'void f_%s(void){ %s %s x; printf("%%zu %%zu", sizeof x, _Alignof(%s %s));' % (name, kw, name, kw, name)
            for n in nm:
                if n is None: continue
                st = 'x.%s=-1;' % n[0] if n[1] else 'memset(&x.%s,0xff,sizeof x.%s);' % (n[0], n[0])
                fn += ' memset(&x,0,sizeof x); %s { unsigned char *p=(unsigned char*)&x; int first=-1,cnt=0; for (size_t i=0;i<sizeof x*8;i++) if (p[i/8]>>(i%%8)&1){ if(first<0)first=i; cnt++;} printf(" %%d:%%d",first,cnt);}' % st
            out.append(fn + ' printf("\\n");}'); calls.append('f_%s();' % name); keys.append((kw, seq))
    out.append('int main(void){' + ''.join(calls) + 'return 0;}')
    open(d + '/t.c', 'w').write('\n'.join(out))
    subprocess.check_call(['gcc', '-O0', '-w', '-o', d + '/t', d + '/t.c'])
    bad = 0
    for (kw, seq), l in zip(keys, subprocess.check_output([d + '/t']).decode().splitlines()):
        size, align, mem = layout([(t, w, n, 0) for t, w, n in seq], kw == 'union')
        want = '%d %d' % (size, align) + ''.join(' %d:%d' % m for m in mem if m is not None)
        if want != l:
            bad += 1; print(kw, seq, 'gcc', l, 'ref', want)
    print(len(keys), 'layouts', bad, 'mismatches')
def enums():
    B = [0, 1, -1, 127, 128, 255, 256, 0x7fffffff, 0x80000000, -0x80000000, -0x80000001, 0xffffffff, 0x100000000, 2 ** 63 - 1, 2 ** 63, -2 ** 63, 2 ** 64 - 1]
    cases = []
    for a in B:
        cases.append([a]); cases.append([a, None])
        for b in B: cases.append([a, b]); cases.append([a, b, None]); cases.append([a, None, b])
    def lit(v):
        if v == -2 ** 63: return '(-0x7fffffffffffffff-1)'
        return '-%d' % -v if v < 0 else '%d%s' % (v, 'u' if v >= 2 ** 63 else '')
    out = ['#include <stdio.h>']; calls = []; keys = []
    for k, c in enumerate(cases):
        ref = enum_ref(c, None)
        if ref[0] != 'ok': continue
        out.append('enum E%d {%s};' % (k, ','.join('e%d_%d%s' % (k, i, '' if v is None else '=' + lit(v)) for i, v in enumerate(c))))
        p = ''.join(' printf(" %%llu",(unsigned long long)e%d_%d);' % (k, i) for i in range(len(c)))
        out.append('void f%d(void){printf("%%zu %%zu %%d",sizeof(enum E%d),_Alignof(enum E%d),(enum E%d)-1<0);%s printf("\\n");}' % (k, k, k, k, p))
        calls.append('f%d();' % k); keys.append((c, ref))
    out.append('int main(void){%s}' % ''.join(calls))
    open(d + '/e.c', 'w').write('\n'.join(out))
    subprocess.check_call(['clang', '-w', '-o', d + '/e', d + '/e.c'])
    bad = 0
    for (c, ref), l in zip(keys, subprocess.check_output([d + '/e']).decode().splitlines()):
        _, size, signed, values = ref
        want = '%d %d %d' % (size, size, signed) + ''.join(' %d' % (v % 2 ** 64) for v in values)
        if want != l:
            bad += 1; print(c, 'clang', l, 'ref', want)
    print(len(keys), 'enums', bad, 'mismatches')
def attrs():
    PLAIN = [a for a in ALPHA if a[1] is None and a[2]]
    cases = []
    for n in (1, 2, 3):
        for s_ in itertools.product(PLAIN, repeat=n): cases.append(('pack', tuple((t, w, nm, 0) for t, w, nm in s_)))
    for n in (1, 2):
        for s_ in itertools.product(PLAIN, repeat=n):
            for als in itertools.product((0, 8, 16, 32), repeat=n):
                if not any(als) or any(al and al < ns['TY'][t][1] for (t, _, _), al in zip(s_, als)): continue
                cases.append(('al', tuple((t, w, nm, al) for (t, w, nm), al in zip(s_, als))))
    out = ['#include <stdio.h>', '#include <stddef.h>', 'struct S12 { int a, b, c; }; typedef char A3[3];']; calls = []
    for k, (mode, seq) in enumerate(cases):
        body = ''.join('%s%s m%d; ' % ('_Alignas(%d) ' % al if al else '', CT.get(t, t), i) for i, (t, w, nm, al) in enumerate(seq))
        out.append('struct %s T%d { %s};' % ('__attribute__((packed))' if mode == 'pack' else '', k, body))
        p = ''.join(' printf(" %%zu", offsetof(struct T%d, m%d)*8);' % (k, i) for i in range(len(seq)))
        out.append('void f%d(void){printf("%%zu %%zu", sizeof(struct T%d), _Alignof(struct T%d));%s printf("\\n");}' % (k, k, k, p)); calls.append('f%d();' % k)
    out.append('int main(void){%s}' % ''.join(calls))
    open(d + '/a.c', 'w').write('\n'.join(out))
    subprocess.check_call(['gcc', '-w', '-o', d + '/a', d + '/a.c'])
    bad = 0
    for (mode, seq), l in zip(cases, subprocess.check_output([d + '/a']).decode().splitlines()):
        size, align, mem = layout(seq, False, pack=(mode == 'pack'))
        want = '%d %d' % (size, align) + ''.join(' %d' % m[0] for m in mem)
        if want != l:
            bad += 1; print(mode, seq, 'gcc', l, 'ref', want)
    print(len(cases), 'packed/_Alignas layouts', bad, 'mismatches')
layouts(); enums(); attrs()
subprocess.call(['rm', '-rf', d])
