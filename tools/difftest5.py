#!/usr/bin/env python3
"""DISCOVERY AID ONLY - not a registered check.  Preprocessor differential: the random macro programs of rule C12.g
(props/c12.py: gen_pp_program) expanded by `cproc-qbe -E` and by `gcc -E -P`; the token sequences (white space ignored,
string literals compared modulo inner spacing rules are NOT relaxed) must agree, or both must reject.

usage: difftest5.py <first seed> <count>"""
import os, random, re, subprocess, sys, tempfile
HERE = os.path.dirname(os.path.abspath(__file__))
sys.path.insert(0, os.path.join(HERE, '..')); sys.path.insert(0, os.path.join(HERE, '..', 'lib'))
from props import c12
CPROC = os.environ.get('CPROC_QBE', '/repo/cproc-qbe')
TOK = re.compile(r'"(?:[^"\\]|\\.)*"|\'(?:[^\'\\]|\\.)*\'|[A-Za-z_]\w*|\d[\w.]*|\.\.\.|<<=|>>=|->|\+\+|--|<<|>>|<=|>=|==|!=|&&|\|\||[-+*/%&|^]=|##|\S')

def toks(s): return TOK.findall(s)

def main():
    first, count = int(sys.argv[1]), int(sys.argv[2])
    stats = {}
    d = tempfile.mkdtemp(prefix='dt5-')
    for seed in range(first, first + count):
        rnd = random.Random(seed)
        text = c12.gen_pp_program(rnd)
        f = os.path.join(d, 'p.c'); open(f, 'w').write(text)
        g = subprocess.run(['gcc', '-E', '-P', '-std=c2x', f], capture_output=True, text=True)
        c = subprocess.run([CPROC, '-E', f], capture_output=True, text=True)
        gerr = g.returncode != 0 or 'error' in g.stderr
        cerr = c.returncode != 0
        if cerr and not gerr and 'not enough arguments' in c.stderr and '...' in text: st = 'c11-vs-c23-variadic'      # F(a, ...) invoked without variable arguments: C11 constraint, C23 valid
        elif gerr and cerr: st = 'both-reject'
        elif gerr != cerr: st = 'ACCEPTANCE'
        elif toks(g.stdout) != toks(c.stdout): st = 'MISMATCH'
        else: st = 'ok'
        stats[st] = stats.get(st, 0) + 1
        if st in ('ACCEPTANCE', 'MISMATCH'):
            print('seed %d: %s\n%s  gcc : %s\n  cproc: %s' % (seed, st, text, (g.stdout.strip() or g.stderr.strip()[:200]).replace('\n', ' '), (c.stdout.strip() or c.stderr.strip()[:200]).replace('\n', ' ')), flush=True)
    print(stats)

if __name__ == '__main__':
    main()
