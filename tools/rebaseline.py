#!/usr/bin/env python3
"""Regenerate baseline/diagnostics.json from the CURRENT /repo tree.  Run only after reviewing the tree
(the baseline is the reference for rule C10.c; it is never written by a check)."""
import json, os, sys
HERE = os.path.dirname(os.path.dirname(os.path.abspath(__file__)))
sys.path.insert(0, os.path.join(HERE, 'lib')); sys.path.insert(0, HERE)
import facts
from props import c10
prog = facts.programs()['cproc-qbe']
sites = c10.inventory(prog)
for s in sites: s.pop('line', None)
json.dump({'_comment': 'reference inventory of error()/fatal() sites of cproc-qbe: (function, message, guard, branch). Rule C10.c alarms only on deletion or guard inversion.',
           'repo_head': os.popen('git -C /repo rev-parse --short HEAD').read().strip(), 'sites': sites},
          open(os.path.join(HERE, 'baseline', 'diagnostics.json'), 'w'), indent=0)
print(len(sites), 'sites')

# reference inventory of structure members (rule C03.c judges the members that exist on the reviewed tree; a member added later and not read yet enforces nothing, but breaks nothing either)
names = set()
for fid, (rec, fld) in prog.fields.items():
    rn = rec.get('name') or 'anon@%s:%s' % (rec.get('dline'), rec.get('dcol'))
    if rec.get('name'): names.add('%s.%s' % (rn, fld.get('name')))
json.dump({'_comment': 'members of named structures/unions of cproc-qbe on the reviewed tree (rule C03.c)', 'members': sorted(names)}, open(os.path.join(HERE, 'baseline', 'fields.json'), 'w'), indent=0)
print(len(names), 'members')
