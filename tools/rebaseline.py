#!/usr/bin/env python3
"""Regenerate baseline/diagnostics.json from the CURRENT /repo tree.  Run only after reviewing the tree
(the baseline is the reference for rule C10.c; it is never written by a check)."""
import json, os, sys
HERE = os.path.dirname(os.path.dirname(os.path.abspath(__file__)))
sys.path.insert(0, os.path.join(HERE, 'lib')); sys.path.insert(0, HERE)
import facts
from props import c10
prog = facts.programs()['cproc-qbe']
sites = c10.inventory(prog)
for s in sites: s.pop('line', None)
json.dump({'_comment': 'reference inventory of error()/fatal() sites of cproc-qbe: (function, message, guard, branch). Rule C10.c alarms only on deletion or guard inversion.',
           'repo_head': os.popen('git -C /repo rev-parse --short HEAD').read().strip(), 'sites': sites},
          open(os.path.join(HERE, 'baseline', 'diagnostics.json'), 'w'), indent=0)
print(len(sites), 'sites')
