#!/usr/bin/env python3
"""DISCOVERY AID ONLY - not a registered check.  Layout differential: random structure and union types (scalar, pointer,
array, nested and anonymous members, bit-fields of every integer type and width including unnamed and zero-width ones,
_Alignas on members, flexible array members, packed structures) are compared with gcc on sizeof, _Alignof, offsetof of
every addressable member, and on the bytes a bit-field occupies (all-ones stored through the member into a zeroed
object).  It asks of the whole compiler what rule C06.b asks of addmember() for its alphabet of member forms.

usage: difftest12.py <first seed> <count> [-j N]"""
import os, random, re, subprocess, sys, tempfile, shutil
sys.path.insert(0, os.path.dirname(os.path.abspath(__file__)))
import qbei
CPROC = os.environ.get('CPROC_QBE', '/repo/cproc-qbe')

SCALARS = ['char', 'signed char', 'unsigned char', 'short', 'unsigned short', 'int', 'unsigned', 'long', 'unsigned long', 'long long', 'float', 'double', 'long double', '_Bool', 'void *', 'int *', 'char (*)[3]', 'void (*)(void)', 'enum E']
BFTYPES = ['int', 'unsigned', 'signed char', 'unsigned char', 'short', 'unsigned short', 'long', 'unsigned long', 'long long', 'unsigned long long', '_Bool', 'enum E']
BFBITS = {'int': 32, 'unsigned': 32, 'signed char': 8, 'unsigned char': 8, 'short': 16, 'unsigned short': 16, 'long': 64, 'unsigned long': 64, 'long long': 64, 'unsigned long long': 64, '_Bool': 1, 'enum E': 32}
PRE = 'int printf(const char *, ...);\nenum E { E0, E1 };\n'


class G:
    def __init__(self, seed):
        self.r = random.Random(seed); self.n = 0; self.mn = 0; self.defs = []; self.recs = []       # recs: (tag, kind, [(path, kind)])

    def declr(self, t, name, arr=''):
        # t is a type-name; produce a declaration of `name` (an array of t when arr is given)
        m = re.match(r'(.*)\(\*\)(.*)', t)
        if m: return '%s(*%s%s)%s' % (m.group(1), name, arr, m.group(2))
        return '%s %s%s' % (t, name, arr)

    def record(self, depth, packed=False):
        r = self.r
        kind = r.choice(['struct', 'struct', 'union'])
        self.n += 1; tag = 'R%d' % self.n
        body = []; paths = []
        nm = r.randint(1, 6)
        for k in range(nm):
            c = r.random(); self.mn += 1; name = 'm%d' % self.mn
            if c < 0.3 and not packed:
                t = r.choice(BFTYPES); w = r.choice([1, 2, 3, 5, 7, 8, 9, 15, 16, 17, 24, 31, 32, 33, 48, 63, 64]); w = min(w, BFBITS[t])
                u = r.random()
                if t == 'enum E' and u < 0.25: u = 0.5      # `enum E : 3;` reads as an enum with a fixed underlying type in cproc (C23 grammar ambiguity, see DESIGN)
                if u < 0.12: body.append('\t%s : 0;' % t)
                elif u < 0.25: body.append('\t%s : %d;' % (t, w))
                else: body.append('\t%s %s : %d;' % (t, name, w)); paths.append((name, 'bf'))
            elif c < 0.45 and depth > 0:
                sub = self.record(depth - 1, packed)
                stag, skind, spaths = sub
                if r.random() < 0.35:
                    # anonymous member: repeat the definition inline
                    body.append('\t%s;' % self.inline[stag]); paths += [(p, k_) for p, k_ in spaths if not p.startswith('m') or True]
                    paths = self.dedupe(paths)
                else:
                    arr = '[%d]' % r.randint(1, 3) if r.random() < 0.3 else ''
                    body.append('\t%s %s %s%s;' % (skind, stag, name, arr)); paths.append((name, 'agg'))
                    for p, k_ in spaths: paths.append(('%s%s.%s' % (name, '[0]' if arr else '', p), k_))
            else:
                t = r.choice(SCALARS)
                al = '_Alignas(%d) ' % r.choice([16, 32, 64]) if r.random() < 0.15 and not packed else ''
                arr = r.choice(['', '', '', '[1]', '[3]', '[2][2]'])
                body.append('\t%s%s;' % (al, self.declr(t, name, arr))); paths.append((name, 'obj'))
        if not paths:
            self.mn += 1; body.append('\tint m%d;' % self.mn); paths.append(('m%d' % self.mn, 'obj'))       # a record needs a named member (6.7.2.1p8)
        if kind == 'struct' and depth == 2 and r.random() < 0.15 and paths:
            body.append('\t%s fam[];' % r.choice(['char', 'int', 'long', 'double'])); paths.append(('fam', 'fam'))
        attr = ' __attribute__((packed))' if packed and kind == 'struct' else ''
        text = '%s%s %s {\n%s\n}' % (kind, attr, tag, '\n'.join(body))
        if not hasattr(self, 'inline'): self.inline = {}
        self.inline[tag] = '%s%s {\n%s\n\t}' % (kind, attr, '\n'.join('\t' + b for b in body))
        self.defs.append(text + ';')
        rec = (tag, kind, paths)
        return rec

    def dedupe(self, paths):
        seen = set(); out = []
        for p, k in paths:
            if p in seen: return out + [('!dup', 'dup')]
            seen.add(p); out.append((p, k))
        return out

    def program(self):
        tops = []
        for _ in range(4):
            packed = self.r.random() < 0.15
            tops.append(self.record(2, packed))
        body = []
        for tag, kind, paths in tops:
            if any(p == '!dup' for p, _ in paths) or len({p.split('.')[0].split('[')[0] for p, _ in paths}) != len([1 for p, _ in paths if '.' not in p]):
                # duplicate member names through anonymous members: not a valid type; replace by a trivial one
                pass
            T = '%s %s' % (kind, tag)
            body.append('\tprintf("%s size %%d align %%d\\n", (int)sizeof(%s), (int)_Alignof(%s));' % (tag, T, T))
            for p, k in paths:
                if k in ('obj', 'agg', 'fam'):
                    body.append('\tprintf("%s.%s at %%d\\n", (int)__builtin_offsetof(%s, %s));' % (tag, p, T, p))
                if k == 'obj':
                    body.append('\tprintf("%s.%s size %%d\\n", (int)sizeof(((%s *)0)->%s));' % (tag, p, T, p))
                if k == 'bf':
                    body.append('\t{ static %s o; unsigned char *b = (unsigned char *)&o; unsigned i; for (i = 0; i < sizeof o; i++) b[i] = 0; o.%s = -1; printf("%s.%s bits", 0); for (i = 0; i < sizeof o; i++) printf(" %%x", b[i]); printf("\\n", 0); }' % (T, p, tag, p))
        return PRE + '\n'.join(self.defs) + '\nint main(void) {\n' + '\n'.join(body) + '\n\treturn 0;\n}\n'


def run_one(seed):
    src = G(seed).program()
    d = tempfile.mkdtemp(prefix='dt12-')
    try:
        p = os.path.join(d, 'p.c'); open(p, 'w').write(src)
        g = subprocess.run(['gcc', '-std=gnu2x', '-w', '-o', os.path.join(d, 'g'), p], capture_output=True, text=True)
        if g.returncode:
            c = subprocess.run([CPROC, p], capture_output=True, text=True)
            return seed, [('gcc-rejects' + ('' if c.returncode else ',cproc-accepts'), g.stderr.split('\n')[0][:160] + ' | ' + (g.stderr.split('\n')[1] if '\n' in g.stderr else '')[:160], '')], src
        n = subprocess.run([os.path.join(d, 'g')], capture_output=True, text=True).stdout
        c = subprocess.run([CPROC, p], capture_output=True, text=True)
        if c.returncode: return seed, [('cproc-rejects', c.stderr.strip()[:200], '')], src
        try:
            rv, o = qbei.run(c.stdout, max_steps=20_000_000)
        except Exception as e:
            return seed, [('il-error', str(e)[:200], '')], src
        out = []
        for a, b in zip(n.split('\n'), o.split('\n')):
            if a != b: out.append(('LAYOUT', a, 'cproc: ' + b))
        return seed, out[:4], src
    finally:
        shutil.rmtree(d, ignore_errors=True)


def main():
    first, count = int(sys.argv[1]), int(sys.argv[2])
    jobs = int(sys.argv[sys.argv.index('-j') + 1]) if '-j' in sys.argv else 8
    from concurrent.futures import ProcessPoolExecutor
    stats = {}; shown = {}
    os.makedirs('/tmp/dt12', exist_ok=True)
    with ProcessPoolExecutor(jobs) as ex:
        for seed, out, src in ex.map(run_one, range(first, first + count), chunksize=2):
            if out: open('/tmp/dt12/p%d.c' % seed, 'w').write(src)
            for kind, e, det in out:
                stats[kind] = stats.get(kind, 0) + 1
                if shown.get(kind, 0) < 25:
                    shown[kind] = shown.get(kind, 0) + 1
                    print('seed %d %s: %s   %s' % (seed, kind, e, det), flush=True)
    print(stats)


if __name__ == '__main__':
    main()
