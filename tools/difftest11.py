#!/usr/bin/env python3
"""DISCOVERY AID ONLY - not a registered check.  Constant-expression differential: random arithmetic constant expressions
(integer and floating literals of every suffix, casts, unary and binary operators, ?:, sizeof, enumeration constants) used
as initialisers of objects with static storage duration of every scalar type, as array sizes, enumerator values, case
labels and bit-field widths.  gcc decides which expressions are valid and free of overflow (its diagnostics are made
errors and the offending lines dropped); the values of the rest are compared with what cproc's eval.c folds them to
(the emitted data, read back by running main under tools/qbei.py).  It asks of the whole compiler what C04's rules ask
of eval().

usage: difftest11.py <first seed> <count> [-j N]"""
import os, random, re, subprocess, sys, tempfile, shutil
sys.path.insert(0, os.path.dirname(os.path.abspath(__file__)))
import qbei
CPROC = os.environ.get('CPROC_QBE', '/repo/cproc-qbe')

ITYPES = ['_Bool', 'char', 'signed char', 'unsigned char', 'short', 'unsigned short', 'int', 'unsigned', 'long', 'unsigned long', 'long long', 'unsigned long long']
FTYPES = ['float', 'double']
PRE = 'int printf(const char *, ...);\nenum E { E0, E1 = 5, EN = -3, EB = 0x7fffffff };\nstruct S { char c; long l; int a[3]; };\n'
ILITS = ['0', '1', '2', '3', '7', '8', '31', '32', '63', '64', '100', '255', '256', '32767', '65535', '65536', '2147483647', '2147483648', '4294967295', '4294967296', '9223372036854775807', '18446744073709551615u',
         '0x7f', '0x80', '0xff', '0xffff', '0x7fffffff', '0x80000000', '0xffffffff', '0x100000000', '0x7fffffffffffffff', '0x8000000000000000', '0xffffffffffffffff', '017', '0777', '0b101',
         '1u', '1l', '1ul', '1ll', '1ull', '5u', '3L', '10UL', '1000000LL', "'a'", "'\\0'", "'\\377'", "'\\n'", "L'x'", "u'x'", "U'x'", 'E0', 'E1', 'EN', 'EB', 'sizeof(int)', 'sizeof(struct S)', 'sizeof(char[7])',
         '_Alignof(long)', '__builtin_offsetof(struct S, l)', '__builtin_offsetof(struct S, a[2])']
FLITS = ['0.0', '1.0', '0.5', '2.5', '1e10', '1e-3', '3.0f', '0.1f', '1.5e300', '123456789.0', '4294967296.0', '-0.0', '16777217.0f', '0x1p10', '0x1.8p1', '1e38f', '9007199254740993.0', '0.1', '1e100', '2147483648.0', '1.9', '255.9']
BIN = ['+', '-', '*', '/', '%', '<<', '>>', '&', '|', '^', '<', '>', '<=', '>=', '==', '!=', '&&', '||']


RANGE = {'_Bool': None, 'char': (-129, 128), 'signed char': (-129, 128), 'unsigned char': (-1, 256), 'short': (-32769, 32768), 'unsigned short': (-1, 65536), 'int': (-2147483649, 2147483648), 'unsigned': (-1, 4294967296),
         'long': (-9223372036854777856, 9223372036854775808), 'unsigned long': (-1, 18446744073709551616), 'long long': (-9223372036854777856, 9223372036854775808), 'unsigned long long': (-1, 18446744073709551616),
         'enum E': (-2147483649, 2147483648)}
GUARDS = []


def gen(r, d, fl):
    if d == 0 or r.random() < 0.25:
        if fl and r.random() < 0.5: return r.choice(FLITS)
        return r.choice(ILITS)
    k = r.random()
    if k < 0.5:
        op = r.choice(BIN)
        f2 = fl and op not in ('%', '<<', '>>', '&', '|', '^')
        return '(%s %s %s)' % (gen(r, d - 1, f2), op, gen(r, d - 1, f2))
    if k < 0.6: return '(%s ? %s : %s)' % (gen(r, d - 1, fl), gen(r, d - 1, fl), gen(r, d - 1, fl))
    if k < 0.72:
        op = r.choice(['-', '~', '!', '+'])
        return '%s(%s)' % (op, gen(r, d - 1, fl and op != '~'))
    t = r.choice(ITYPES + (FTYPES if fl else []) + ['enum E'])
    inner = gen(r, d - 1, True if r.random() < 0.3 else fl)
    if RANGE.get(t):
        # converting a floating value outside the range of the integer type is undefined (6.3.1.4p1): the item is only judged when this guard holds
        lo, hi = RANGE[t]
        GUARDS.append('_Generic((%s), float: 1, double: 1, default: 0) ? ((long double)(%s) > %d.0L && (long double)(%s) < %d.0L) : 1' % (inner, inner, lo, inner, hi))
    return '(%s)(%s)' % (t, inner)


def build(items):
    """items: (kind, type, expr)"""
    g = []; body = []
    for i, (kind, t, e) in enumerate(items):
        if kind == 'static':
            g.append('static %s x%d = %s;' % (t, i, e))
            if t in FTYPES: body.append('\t{ union { double d; unsigned long long u; } c; c.d = x%d; printf("%d %%llx\\n", c.u); }' % (i, i))
            else: body.append('\tprintf("%d %%llx\\n", (unsigned long long)x%d);' % (i, i))
        elif kind == 'array':
            g.append('static char x%d[(%s) & 0xff | 1];' % (i, e)); body.append('\tprintf("%d %%llx\\n", (unsigned long long)sizeof x%d);' % (i, i))
        elif kind == 'enum':
            g.append('enum { x%d = (%s) & 0xfffff };' % (i, e)); body.append('\tprintf("%d %%llx\\n", (unsigned long long)x%d);' % (i, i))
        elif kind == 'bitfield':
            g.append('static struct { unsigned f : ((%s) & 15) + 1; } x%d = { 0xffff };' % (e, i)); body.append('\tprintf("%d %%llx\\n", (unsigned long long)x%d.f);' % (i, i))
        elif kind == 'case':
            g.append('static int x%d(long long v) { switch (v) { case %s: return 1; default: return 0; } }' % (i, e)); body.append('\tprintf("%d %%llx\\n", (unsigned long long)(x%d(%s) + 2 * x%d((long long)((unsigned long long)(%s) + 1u))));' % (i, i, e, i, e))
        elif kind == 'staticassert':
            g.append('_Static_assert((%s) || 1, ""); static int x%d = sizeof(char[((%s) != 0) + 1]);' % (e, i, e)); body.append('\tprintf("%d %%llx\\n", (unsigned long long)x%d);' % (i, i))
    return PRE + '\n'.join(g) + '\nint main(void) {\n' + '\n'.join(body) + '\n\treturn 0;\n}\n'


GCCFLAGS = ['-std=gnu2x', '-pedantic', '-Werror', '-Wno-error=pedantic', '-Wno-pedantic', '-Woverflow', '-Wdiv-by-zero', '-Wshift-count-overflow', '-Wshift-count-negative', '-Wshift-negative-value', '-Wshift-overflow=2',
            '-Wno-unused', '-Wno-bool-operation', '-Wno-int-in-bool-context', '-Wno-parentheses', '-Wno-multichar', '-Wno-overlength-strings', '-fmax-errors=0', '-Wfloat-conversion', '-Wno-error=float-conversion', '-Wno-float-conversion',
            '-Wno-switch-outside-range', '-Wno-switch-bool', '-Wno-logical-not-parentheses']


def run_one(seed):
    r = random.Random(seed)
    items = []; guards = []
    for _ in range(40):
        kind = r.choice(['static'] * 6 + ['array', 'enum', 'bitfield', 'case', 'staticassert'])
        del GUARDS[:]
        if kind == 'static':
            t = r.choice(ITYPES + FTYPES + ['enum E'])
            e = gen(r, r.randint(1, 4), r.random() < 0.5)
            if t in RANGE and RANGE[t]:
                lo, hi = RANGE[t]
                GUARDS.append('_Generic((%s), float: 1, double: 1, default: 0) ? ((long double)(%s) > %d.0L && (long double)(%s) < %d.0L) : 1' % (e, e, lo, e, hi))
            items.append((kind, t, e))
        else:
            items.append((kind, None, gen(r, r.randint(1, 3), r.random() < 0.2)))
        guards.append(list(GUARDS))
    d = tempfile.mkdtemp(prefix='dt11-')
    try:
        # gcc: drop every item it diagnoses (errors name the line of the global)
        cur = list(range(len(items)))
        for _round in range(6):
            src = build([items[i] for i in cur])
            p = os.path.join(d, 'p.c'); open(p, 'w').write(src)
            first = src.split('\n').index(PRE.strip().split('\n')[-1]) + 1
            g = subprocess.run(['gcc'] + GCCFLAGS + ['-o', os.path.join(d, 'g'), p], capture_output=True, text=True)
            if g.returncode == 0: break
            bad = set()
            for m in re.finditer(r'p\.c:(\d+):\d+: (?:error|warning)', g.stderr):
                k = int(m.group(1)) - 1 - first
                if 0 <= k < len(cur): bad.add(k)
            if not bad: return seed, [('gcc-fail', g.stderr[:300], '')]
            cur = [c for k, c in enumerate(cur) if k not in bad]
        else:
            return seed, [('gcc-fail', 'no fixpoint', '')]
        n = subprocess.run([os.path.join(d, 'g')], capture_output=True, text=True).stdout
        out = []
        # guards (floating to integer conversions in range), evaluated by gcc
        gsrc = PRE + 'int main(void) {\n' + ''.join('\tprintf("%d %%d\\n", %s);\n' % (i, ' && '.join('(%s)' % x for x in guards[i]) or '1') for i in cur) + '\treturn 0;\n}\n'
        gp = os.path.join(d, 'guard.c'); open(gp, 'w').write(gsrc)
        gg = subprocess.run(['gcc', '-std=gnu2x', '-w', '-o', os.path.join(d, 'gd'), gp], capture_output=True, text=True)
        if gg.returncode: return seed, [('guard-fail', gg.stderr[:300], '')]
        gout = dict(l.split() for l in subprocess.run([os.path.join(d, 'gd')], capture_output=True, text=True).stdout.split('\n') if l)
        defined = {i for i in cur if gout.get(str(i)) == '1'}
        # cproc: stops at the first error; drop and retry, recording the rejected expressions
        cc = list(cur)
        while True:
            src = build([items[i] for i in cc])
            q = os.path.join(d, 'q.c'); open(q, 'w').write(src)
            first = src.split('\n').index(PRE.strip().split('\n')[-1]) + 1
            c = subprocess.run([CPROC, q], capture_output=True, text=True)
            if c.returncode == 0: break
            m = re.search(r'q\.c:(\d+):\d+: error: (.*)', c.stderr)
            if not m: return seed, out + [('CRASH', c.stderr.strip()[-200:], '')]
            k = int(m.group(1)) - 1 - first
            if not (0 <= k < len(cc)): return seed, out + [('LOC', c.stderr.strip()[:200], '')]
            if cc[k] in defined: out.append(('cproc-rejects', '%s %s = %s' % items[cc[k]], m.group(2)))
            del cc[k]
        try:
            rv, o = qbei.run(c.stdout, max_steps=5_000_000)
        except Exception as e:
            return seed, out + [('il-error', str(e)[:200], '')]
        gv = dict(l.split() for l in n.split('\n') if l); cv = dict(l.split() for l in o.split('\n') if l)
        for k, i in enumerate(cur):
            if i not in cc or i not in defined: continue
            a = gv.get(str(k)); b = cv.get(str(cc.index(i)))
            if a != b: out.append(('VALUE', '%s %s = %s' % items[i], 'gcc %s, cproc %s' % (a, b)))
        return seed, out
    finally:
        shutil.rmtree(d, ignore_errors=True)


def main():
    first, count = int(sys.argv[1]), int(sys.argv[2])
    jobs = int(sys.argv[sys.argv.index('-j') + 1]) if '-j' in sys.argv else 8
    from concurrent.futures import ProcessPoolExecutor
    stats = {}; shown = {}
    with ProcessPoolExecutor(jobs) as ex:
        for seed, out in ex.map(run_one, range(first, first + count), chunksize=2):
            for kind, e, det in out:
                stats[kind] = stats.get(kind, 0) + 1
                if shown.get(kind, 0) < 40:
                    shown[kind] = shown.get(kind, 0) + 1
                    print('seed %d %s: %s   %s' % (seed, kind, e, det), flush=True)
    print(stats)


if __name__ == '__main__':
    main()
