/* spelling of C23 keywords for the native reference compilers of this image (gcc 12, clang 14), used by tools/difftest4.py only */
#define bool _Bool
#define true 1
#define false 0
#define nullptr ((void *)0)
#define static_assert _Static_assert
#define alignof _Alignof
#define alignas _Alignas
#define typeof_unqual typeof
#define thread_local _Thread_local
