#!/usr/bin/env python3
"""DISCOVERY AID ONLY - not a registered check.  Self-hosting under the interpreter: cproc-qbe's own sources are
preprocessed with the driver's cpp flags, compiled by /repo/cproc-qbe to QBE IL, linked (file-local symbols renamed per
unit) and RUN under tools/qbei.py with a small libc written in Python - a "stage 2" compiler without qbe/as/ld.  Stage 2 is
then given the inputs of the test suite; its output must equal what stage 1 (the native binary) prints.  This is the
running counterpart of C02 (and exercises C01 on a 10k-line program: the compiler itself).

usage: selfhost.py [-j N] [pattern]      pattern: substring of the test names to run (default: all)"""
import glob, math, os, re, struct, subprocess, sys, time
sys.path.insert(0, os.path.dirname(os.path.abspath(__file__)))
import qbei
from qbei import Trap, ILError, sx, M32, M64, f32

REPO = os.environ.get('VERIF_REPO', '/repo')
CPROC = os.path.join(REPO, 'cproc-qbe')
UNITS = ['attr', 'decl', 'eval', 'expr', 'init', 'main', 'map', 'pp', 'qbe', 'scan', 'scope', 'stmt', 'targ', 'token', 'tree', 'type', 'utf', 'util']
CPP = ['cpp', '-U__GNUC__', '-U__GNUC_MINOR__', '-D__STDC_NO_ATOMICS__', '-D__STDC_NO_COMPLEX__', '-U__SIZEOF_INT128__', '-U__PIC__', '-D__extension__=', '-P']
CTYPE = None


def build_il(cproc=CPROC):
    """-> linked IL text of stage 2"""
    texts = []
    for k, u in enumerate(UNITS):
        pre = subprocess.run(CPP + [os.path.join(REPO, u + '.c')], capture_output=True, text=True)
        if pre.returncode: raise SystemExit('cpp failed on %s: %s' % (u, pre.stderr[:300]))
        c = subprocess.run([cproc] + (['-t', os.environ['SELFHOST_TARGET']] if os.environ.get('SELFHOST_TARGET') else []), input=pre.stdout, capture_output=True, text=True)
        if c.returncode: raise SystemExit('stage 1 rejects its own source %s.c: %s' % (u, c.stderr[:300]))
        texts.append(c.stdout)
    return link(texts)


def link(texts):
    """concatenate the IL of several translation units; file-local symbols and aggregate type names are renamed per unit"""
    parts = []
    for k, text in enumerate(texts):
        # which definitions are exported?  `export` precedes `function` / `data` (possibly on its own line)
        exported = set(); local = set()
        lines = text.split('\n'); pend = False
        for ln in lines:
            s = ln.strip()
            if s in ('export', 'export thread', 'thread export'): pend = True; continue
            m = re.match(r'^((?:export|thread)\s+)*(function|data)\b(.*)$', s)
            if m:
                isexp = pend or 'export' in (m.group(0).split(m.group(2))[0])
                nm = re.search(r'\$[\w.]+', m.group(3))
                if nm: (exported if isexp else local).add(nm.group(0))
                pend = False
            elif s and not s.startswith('type'):
                pend = pend and False
        pref = '$u%d.' % k
        def ren(m):
            return pref + m.group(0)[1:] if m.group(0) in local else m.group(0)
        text = re.sub(r'\$[\w.]+', ren, text)
        # aggregate type names are per unit as well
        text = re.sub(r':([A-Za-z_.][\w.]*)', lambda m: ':u%d.%s' % (k, m.group(1)), text)
        parts.append(text)
    return '\n'.join(parts)


HEAP = 1 << 26


def ctype_table():
    """glibc's classification table of the C locale (what <ctype.h> macros index), read from the host once"""
    global CTYPE
    if CTYPE is None:
        import tempfile, shutil
        d = tempfile.mkdtemp(prefix='ct-')
        try:
            open(os.path.join(d, 'ct.c'), 'w').write('#include <ctype.h>\n#include <stdio.h>\nint main(void) { const unsigned short *t = *__ctype_b_loc(); for (int i = -128; i < 256; i++) printf("%u,", t[i]); return 0; }\n')
            subprocess.run(['cc', os.path.join(d, 'ct.c'), '-o', os.path.join(d, 'ct')], check=True)
            r = subprocess.run([os.path.join(d, 'ct')], capture_output=True, text=True)
            CTYPE = [int(x) for x in r.stdout.strip(',').split(',')]
        finally:
            shutil.rmtree(d, ignore_errors=True)
    return CTYPE


class Libc:
    """the part of libc cproc-qbe uses, on a qbei.Machine"""
    def __init__(self, mach, stdin_bytes=b'', files=None):
        self.m = mach; m = mach
        m.heap_top = HEAP; m.blocks = {}
        while len(m.mem) < HEAP + (1 << 20): m.mem.extend(bytes(len(m.mem)))
        self.files = files or {}
        self.streams = {}
        def mkstream(kind, data=b''):
            a = self.malloc(16); self.streams[a] = {'kind': kind, 'data': data, 'pos': 0, 'out': bytearray(), 'err': 0, 'unget': []}; return a
        self.stdin = mkstream('r', stdin_bytes); self.stdout = mkstream('w'); self.stderr = mkstream('w')
        for nm, a in (('$stdin', self.stdin), ('$stdout', self.stdout), ('$stderr', self.stderr)):
            p = self.malloc(8); m.store(p, 8, a); m.sym[nm] = p
        ctype_table()
        tab = self.malloc(2 * 384)
        for i, v in enumerate(CTYPE): m.store(tab + 2 * i, 2, v)
        self.ctype_ptr = self.malloc(8); m.store(self.ctype_ptr, 8, tab + 2 * 128)
        self.errno_p = self.malloc(4); m.store(self.errno_p, 4, 0)
        self.exit_status = None

    def malloc(self, n):
        m = self.m
        p = (m.heap_top + 15) // 16 * 16
        m.heap_top = p + max(n, 1)
        while m.heap_top + 64 > len(m.mem): m.mem.extend(bytes(1 << 24))
        m.blocks[p] = n
        return p

    def cstr(self, p):
        m = self.m; e = m.mem.find(b'\0', p)
        return bytes(m.mem[p:e])

    def write(self, stream, data):
        s = self.streams.get(stream)
        if s is None or s['kind'] != 'w': raise Trap('write to a stream that is not open for writing')
        s['out'] += data

    def fmt(self, fmt, args):
        """printf formatting; args: list of (cls, value)"""
        out = bytearray(); i = 0; args = list(args)
        def nxt():
            if not args: raise Trap('printf: too few arguments for %r' % fmt)
            return args.pop(0)
        while i < len(fmt):
            c = fmt[i]
            if c != 0x25: out.append(c); i += 1; continue
            m_ = re.match(rb'%([-+ #0]*)(\*|\d+)?(?:\.(\*|\d+))?(hh|h|ll|l|z|j|t|L)?([diouxXcspfgeE%])', fmt[i:])
            if not m_: raise Trap('printf: conversion in %r' % fmt[i:i + 10])
            flags, width, prec, ln, conv = m_.groups(); i += len(m_.group(0))
            flags = flags.decode()
            if conv == b'%': out.append(0x25); continue
            if width == b'*': width = sx(nxt()[1], 32)
            elif width is not None: width = int(width)
            if prec == b'*': prec = sx(nxt()[1], 32)
            elif prec is not None: prec = int(prec)
            cls, v = nxt()
            conv = conv.decode(); ln = (ln or b'').decode()
            bits = 64 if ln in ('l', 'll', 'z', 'j', 't') else 32
            if conv in 'di':
                if cls not in ('w', 'l'): raise Trap('printf %%%s with class %s' % (conv, cls))
                s = '%d' % sx(v, bits)
                if '+' in flags and not s.startswith('-'): s = '+' + s
            elif conv in 'uoxX':
                if cls not in ('w', 'l'): raise Trap('printf %%%s with class %s' % (conv, cls))
                v &= (1 << bits) - 1
                s = {'u': '%d', 'o': '%o', 'x': '%x', 'X': '%X'}[conv] % v
                if '#' in flags and v: s = {'o': '0', 'x': '0x', 'X': '0X', 'u': ''}[conv] + s
            elif conv == 'c': s = chr(v & 255)
            elif conv == 's':
                b = self.cstr(v) if v else b'(null)'
                if prec is not None: b = b[:prec]
                s = b.decode('latin-1'); prec = None
            elif conv == 'p': s = '%#x' % v
            else:
                if cls not in ('d', 's'): raise Trap('printf %%%s with class %s' % (conv, cls))
                spec = '%' + ('#' if '#' in flags else '') + ('.%d' % prec if prec is not None else '') + conv
                s = spec % v; prec = None
                s = s.replace('inf', 'inf').replace('nan', 'nan')
            if prec is not None and conv in 'diuoxX': s = s.rjust(prec, '0') if not s.startswith('-') else '-' + s[1:].rjust(prec, '0')
            if width is not None:
                if '-' in flags or width < 0: s = s.ljust(abs(width))
                elif '0' in flags and conv not in 'cs': s = s.rjust(width, '0')
                else: s = s.rjust(width)
            out += s.encode('latin-1')
        return bytes(out)

    def valist(self, p):
        m = self.m; word = m.load(p, 8); idx, pos = (word >> 32) - 1, word & 0xffffffff
        lst = m.valists[idx]
        m.store(p, 8, (idx + 1) << 32 | len(lst))
        return lst[pos:]


def externals(L):
    m = L.m
    A = lambda a, i: a[i][1]
    def getc(mm, a):
        s = L.streams[A(a, 0)]
        if s['unget']: return s['unget'].pop()
        if s['pos'] >= len(s['data']): return (-1) & M32
        c = s['data'][s['pos']]; s['pos'] += 1; return c
    def ungetc(mm, a):
        c = sx(A(a, 0), 32)
        if c == -1: return (-1) & M32
        L.streams[A(a, 1)]['unget'].append(c & 255); return c & 255
    def fopen(mm, a):
        path = L.cstr(A(a, 0)).decode(); mode = L.cstr(A(a, 1)).decode()
        if 'r' in mode:
            if path not in L.files: m.store(L.errno_p, 4, 2); return 0
            p = L.malloc(16); L.streams[p] = {'kind': 'r', 'data': L.files[path], 'pos': 0, 'out': bytearray(), 'err': 0, 'unget': []}; return p
        p = L.malloc(16); L.streams[p] = {'kind': 'w', 'data': b'', 'pos': 0, 'out': bytearray(), 'err': 0, 'unget': [], 'path': path}; return p
    def freopen(mm, a):
        path = L.cstr(A(a, 0)).decode(); mode = L.cstr(A(a, 1)).decode(); st = A(a, 2)
        if 'r' in mode:
            if path not in L.files: m.store(L.errno_p, 4, 2); return 0
            L.streams[st].update({'kind': 'r', 'data': L.files[path], 'pos': 0, 'unget': []}); return st
        L.streams[st].update({'kind': 'w', 'path': path}); return st
    def exit_(mm, a):
        L.exit_status = sx(A(a, 0), 32) & 255
        raise Exit(L.exit_status)
    def realloc(mm, a):
        p, n = A(a, 0), A(a, 1)
        q = L.malloc(n)
        if p:
            old = m.blocks.get(p)
            if old is None: raise Trap('realloc of %#x, which malloc did not return' % p)
            k = min(old, n); m.mem[q:q + k] = m.mem[p:p + k]
        return q
    def memcpy(mm, a):
        d, s, n = A(a, 0), A(a, 1), A(a, 2)
        if n: m.chk(d, n); m.chk(s, n); m.mem[d:d + n] = m.mem[s:s + n]
        return d
    def memset(mm, a):
        d, c, n = A(a, 0), A(a, 1) & 255, A(a, 2)
        if n: m.chk(d, n); m.mem[d:d + n] = bytes([c]) * n
        return d
    def memcmp(mm, a):
        x = bytes(m.mem[A(a, 0):A(a, 0) + A(a, 2)]); y = bytes(m.mem[A(a, 1):A(a, 1) + A(a, 2)])
        return ((x > y) - (x < y)) & M32
    def strcmp(mm, a):
        x = L.cstr(A(a, 0)); y = L.cstr(A(a, 1)); return ((x > y) - (x < y)) & M32
    def strchr(mm, a):
        s = L.cstr(A(a, 0)) + b'\0'; k = s.find(bytes([A(a, 1) & 255])); return A(a, 0) + k if k >= 0 else 0
    def strrchr(mm, a):
        s = L.cstr(A(a, 0)) + b'\0'; k = s.rfind(bytes([A(a, 1) & 255])); return A(a, 0) + k if k >= 0 else 0
    def strstr(mm, a):
        k = L.cstr(A(a, 0)).find(L.cstr(A(a, 1))); return A(a, 0) + k if k >= 0 else 0
    def strpbrk(mm, a):
        s = L.cstr(A(a, 0)); acc = L.cstr(A(a, 1))
        for k, c in enumerate(s):
            if c in acc: return A(a, 0) + k
        return 0
    def strtoull(mm, a):
        s = L.cstr(A(a, 0)); base = sx(A(a, 2), 32)
        mt = re.match(rb'\s*([-+]?)(0[xX])?', s)
        k = mt.end(1); pre = mt.group(2)
        if base == 16 and pre: k = mt.end(2)
        elif base == 0: base = 16 if pre else (8 if s[k:k + 1] == b'0' else 10); k = mt.end(2) if pre else k
        digs = b'0123456789abcdefghijklmnopqrstuvwxyz'[:base]
        v = 0; j = k; over = False
        while j < len(s) and bytes([s[j]]).lower() in [bytes([d]) for d in digs]:
            v = v * base + digs.index(bytes([s[j]]).lower()); j += 1
            if v > M64: over = True
        if j == k and pre and base == 16: j = mt.end(1) + 1     # "0x" without digits: the 0 is the number
        if A(a, 1): m.store(A(a, 1), 8, A(a, 0) + j)
        if over: m.store(L.errno_p, 4, 34); return M64
        if mt.group(1) == b'-': v = (-v) & M64
        return v
    def strtod(mm, a):
        s = L.cstr(A(a, 0))
        mt = re.match(rb'\s*[-+]?(?:0[xX](?:[0-9a-fA-F]*\.?[0-9a-fA-F]*)(?:[pP][-+]?\d+)?|(?:\d+\.?\d*|\.\d+)(?:[eE][-+]?\d+)?|inf(?:inity)?|nan)', s, re.I)
        if not mt or not mt.group(0).strip():
            if A(a, 1): m.store(A(a, 1), 8, A(a, 0))
            return 0.0
        t = mt.group(0).decode().strip()
        try: v = float.fromhex(t) if re.match(r'[-+]?0[xX]', t) else float(t)
        except (ValueError, OverflowError): v = math.inf
        if A(a, 1): m.store(A(a, 1), 8, A(a, 0) + mt.end())
        return v
    def assert_fail(mm, a):
        raise Trap('assertion failed in stage 2: %s, %s:%d' % (L.cstr(A(a, 0)).decode(), L.cstr(A(a, 1)).decode(), A(a, 2)))
    def snprintf(mm, a):
        out = L.fmt(L.cstr(A(a, 2)), a[3:]); n = A(a, 1)
        if n:
            b = out[:n - 1] + b'\0'; m.chk(A(a, 0), len(b)); m.mem[A(a, 0):A(a, 0) + len(b)] = b
        return len(out) & M32
    def perror(mm, a):
        L.write(L.stderr, (L.cstr(A(a, 0)) if A(a, 0) else b'') + b': error\n'); return None
    E = {
        '$malloc': lambda mm, a: L.malloc(A(a, 0)), '$free': lambda mm, a: None, '$realloc': realloc,
        '$memcpy': memcpy, '$memset': memset, '$memcmp': memcmp, '$strlen': lambda mm, a: len(L.cstr(A(a, 0))), '$strcmp': strcmp, '$strchr': strchr, '$strrchr': strrchr,
        '$strstr': strstr, '$strpbrk': strpbrk, '$strtoull': strtoull, '$strtod': strtod, '$tolower': lambda mm, a: (A(a, 0) + 32 if 65 <= sx(A(a, 0), 32) <= 90 else A(a, 0)) & M32,
        '$__ctype_b_loc': lambda mm, a: L.ctype_ptr, '$__errno_location': lambda mm, a: L.errno_p, '$__assert_fail': assert_fail, '$abort': lambda mm, a: (_ for _ in ()).throw(Trap('abort() in stage 2')),
        '$exit': exit_, '$getc': getc, '$ungetc': ungetc, '$fopen': fopen, '$freopen': freopen, '$fclose': lambda mm, a: 0, '$ferror': lambda mm, a: 0, '$fflush': lambda mm, a: 0,
        '$printf': lambda mm, a: (L.write(L.stdout, L.fmt(L.cstr(A(a, 0)), a[1:])), 0)[1],
        '$fprintf': lambda mm, a: (L.write(A(a, 0), L.fmt(L.cstr(A(a, 1)), a[2:])), 0)[1],
        '$vfprintf': lambda mm, a: (L.write(A(a, 0), L.fmt(L.cstr(A(a, 1)), L.valist(A(a, 2)))), 0)[1],
        '$snprintf': snprintf, '$perror': perror,
        '$fputs': lambda mm, a: (L.write(A(a, 1), L.cstr(A(a, 0))), 0)[1], '$puts': lambda mm, a: (L.write(L.stdout, L.cstr(A(a, 0)) + b'\n'), 0)[1],
        '$fputc': lambda mm, a: (L.write(A(a, 1), bytes([A(a, 0) & 255])), A(a, 0) & 255)[1], '$putc': lambda mm, a: (L.write(A(a, 1), bytes([A(a, 0) & 255])), A(a, 0) & 255)[1],
        '$putchar': lambda mm, a: (L.write(L.stdout, bytes([A(a, 0) & 255])), A(a, 0) & 255)[1],
    }
    return E


class Exit(Exception):
    pass


class Machine2(qbei.Machine):
    def load(self, p, n):
        if not (4096 <= p and p + n <= self.top or HEAP <= p and p + n <= self.heap_top): raise Trap('load of %d bytes at %#x outside every object' % (n, p))
        return int.from_bytes(self.mem[p:p + n], 'little')

    def store(self, p, n, v):
        if not (4096 <= p and p + n <= self.top or HEAP <= p and p + n <= self.heap_top): raise Trap('store of %d bytes at %#x outside every object' % (n, p))
        self.mem[p:p + n] = (v & ((1 << 8 * n) - 1)).to_bytes(n, 'little')

    def chk(self, p, n):
        if not (4096 <= p and p + n <= self.top or HEAP <= p and p + n <= self.heap_top): raise Trap('access of %d bytes at %#x outside every object' % (n, p))


_MOD = {}


def stage2(iltext, argv, stdin_bytes=b'', files=None, max_steps=400_000_000):
    """run the interpreted compiler; -> (status, stdout bytes, stderr bytes)"""
    if id(iltext) not in _MOD: _MOD.clear(); _MOD[id(iltext)] = qbei.Module(iltext)
    mod = _MOD[id(iltext)]
    saved = dict(qbei.EXTERNALS)
    try:
        qbei.EXTERNALS.clear()
        mach = Machine2.__new__(Machine2)
        mach.heap_top = HEAP
        # EXTERNALS must exist before data initialisers that name libc symbols are resolved
        names = ['$malloc', '$free', '$realloc', '$memcpy', '$memset', '$memcmp', '$strlen', '$strcmp', '$strchr', '$strrchr', '$strstr', '$strpbrk', '$strtoull', '$strtod', '$tolower', '$__ctype_b_loc', '$__errno_location',
                 '$__assert_fail', '$abort', '$exit', '$getc', '$ungetc', '$fopen', '$freopen', '$fclose', '$ferror', '$fflush', '$printf', '$fprintf', '$vfprintf', '$snprintf', '$perror', '$fputs', '$puts', '$fputc', '$putc', '$putchar']
        for n in names: qbei.EXTERNALS[n] = None
        mach.depth_limit = 100000
        Machine2.__init__(mach, mod, max_steps)
        L = Libc(mach, stdin_bytes, files)
        qbei.EXTERNALS.update(externals(L))
        # argv
        ptrs = []
        for a in argv:
            b = a.encode() + b'\0'; p = L.malloc(len(b)); mach.mem[p:p + len(b)] = b; ptrs.append(p)
        av = L.malloc(8 * (len(ptrs) + 1))
        for k, p in enumerate(ptrs): mach.store(av + 8 * k, 8, p)
        mach.store(av + 8 * len(ptrs), 8, 0)
        sys.setrecursionlimit(100000)
        try:
            r = mach.call('$main', [('w', len(ptrs)), ('l', av)])
            status = (r or 0) & 255
        except Exit as e:
            status = e.args[0]
        return status, bytes(L.streams[L.stdout]['out']), bytes(L.streams[L.stderr]['out'])
    finally:
        qbei.EXTERNALS.clear(); qbei.EXTERNALS.update(saved)


def run_test(args):
    iltext, path = args
    name = os.path.basename(path)
    flags = []
    m = re.search(r'\+([\w-]+)\.c$', name)
    if m: flags += ['-t', m.group(1)]
    if name.startswith('preprocess'): flags.append('-E')
    src = open(path, 'rb').read()
    ref = subprocess.run([CPROC] + flags, input=src, capture_output=True)
    t0 = time.time()
    try:
        st, out, err = stage2(iltext, ['cproc-qbe'] + flags, stdin_bytes=src)
    except (Trap, ILError, RecursionError) as e:
        return name, 'STAGE2-%s' % type(e).__name__, str(e)[:300], time.time() - t0
    if (st, out) != (ref.returncode, ref.stdout):
        # first differing line
        a = ref.stdout.decode('latin-1').split('\n'); b = out.decode('latin-1').split('\n')
        k = next((i for i in range(min(len(a), len(b))) if a[i] != b[i]), min(len(a), len(b)))
        return name, 'DIFF', 'status %d/%d; line %d: stage1 %r stage2 %r; stderr2 %r' % (ref.returncode, st, k + 1, a[k] if k < len(a) else None, b[k] if k < len(b) else None, err[:200]), time.time() - t0
    if err != ref.stderr: return name, 'DIFF-STDERR', '%r vs %r' % (ref.stderr[:200], err[:200]), time.time() - t0
    return name, 'ok', '', time.time() - t0


def main():
    jobs = int(sys.argv[sys.argv.index('-j') + 1]) if '-j' in sys.argv else 8
    pat = next((a for a in sys.argv[1:] if not a.startswith('-') and not a.isdigit()), '')
    t0 = time.time()
    il = build_il()
    ctype_table()
    print('stage 2 IL: %d lines (%.1fs)' % (il.count('\n'), time.time() - t0), flush=True)
    tests = sorted(p for p in glob.glob(os.path.join(REPO, 'test', '*.c')) if pat in p)
    extra = [p for p in sys.argv[1:] if p.endswith('.c') and os.path.exists(p)]
    from concurrent.futures import ProcessPoolExecutor
    stats = {}
    with ProcessPoolExecutor(jobs) as ex:
        for name, status, det, dt in ex.map(run_test, [(il, p) for p in tests + extra], chunksize=1):
            stats[status] = stats.get(status, 0) + 1
            if status != 'ok' or '-v' in sys.argv: print('%-50s %s %s (%.1fs)' % (name, status, det, dt), flush=True)
    print(stats)


if __name__ == '__main__':
    main()
