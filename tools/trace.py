#!/usr/bin/env python3
"""DISCOVERY AID ONLY: regenerate difftest seed N with a global-state trace after every statement and report where the
native run and the interpreted cproc IL first differ."""
import os, subprocess, sys
sys.path.insert(0, os.path.dirname(os.path.abspath(__file__)))
import difftest, qbei
seed = int(sys.argv[1])
src = difftest.Gen(seed, trace=True).program()
open('/tmp/tr%d.c' % seed, 'w').write(src)
subprocess.run(['gcc', '-w', '-O0', '-o', '/tmp/tr%d' % seed, '/tmp/tr%d.c' % seed], check=True)
n = subprocess.run(['/tmp/tr%d' % seed], capture_output=True, text=True).stdout.split('\n')
c = subprocess.run([difftest.CPROC, '/tmp/tr%d.c' % seed], capture_output=True, text=True)
if c.returncode: print('cproc:', c.stderr); sys.exit(1)
open('/tmp/tr%d.qbe' % seed, 'w').write(c.stdout)
m = qbei.Machine(qbei.Module(c.stdout), 50_000_000)
try:
    m.call('$main', [])
except Exception as e:
    print('interpreter stopped:', type(e).__name__, e)
o = ''.join(m.out).split('\n')
prev = None
for i, (a, b) in enumerate(zip(n, o)):
    if a != b:
        print('first divergence at output line %d: native %r, IL %r; previous trace point %r' % (i, a, b, prev)); break
    prev = a
else:
    print('no divergence in the common prefix; lengths', len(n), len(o), 'last', prev)
print('source: /tmp/tr%d.c' % seed)
