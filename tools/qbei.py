#!/usr/bin/env python3
"""A small interpreter for the QBE IL subset cproc emits.  DISCOVERY AID ONLY: it is not part of any registered check
(the checks are static); it exists because the sandbox has no qbe, to replay suspected miscompilations concretely
(tools/difftest.py compares `gcc` running a program with this interpreter running cproc's IL for it).

usage: qbei.py file.qbe [entry] -> prints the entry function's return value (main by default) and everything the program
wrote through the modelled externals (putchar/puts/printf with %d %u %ld %lu %lld %llu %x %lx %c %s %f %g only).
"""
import re, struct, sys, math

M32, M64 = 2 ** 32 - 1, 2 ** 64 - 1


class ILError(Exception): pass
class Trap(Exception): pass


def sx(v, bits):
    v &= (1 << bits) - 1
    return v - (1 << bits) if v >> (bits - 1) else v


def f32(x):
    try:
        return struct.unpack('<f', struct.pack('<f', x))[0]
    except OverflowError:
        return math.copysign(math.inf, x)


def int_to_float(v, prec):
    """round-to-nearest-even conversion of an integer to a binary float with `prec` significand bits (no double rounding)"""
    if v == 0: return 0.0
    neg = v < 0; a = -v if neg else v
    n = a.bit_length()
    if n > prec:
        sh = n - prec
        q, rem = a >> sh, a & ((1 << sh) - 1)
        half = 1 << (sh - 1)
        if rem > half or (rem == half and q & 1): q += 1
        a = q << sh
    r = float(a)
    return -r if neg else r


class Func:
    def __init__(self, name, ret, params, variadic):
        self.name, self.ret, self.params, self.variadic = name, ret, params, variadic
        self.blocks = []      # [label, phis, insts, jump]
        self.index = {}


TOK = re.compile(r'\s*(:[\w.]+|[%$@][\w.$]+|"(?:[^"\\]|\\.)*"|[sd]_[-+\w.]+|-?\d+|\.\.\.|[=,(){}+]|\w+)')


def tokens(line):
    out = []; pos = 0
    line = line.split('#', 1)[0] if '"' not in line else line
    while pos < len(line):
        m = TOK.match(line, pos)
        if not m:
            if line[pos:].strip() == '': break
            raise ILError('cannot tokenise %r at %d' % (line, pos))
        out.append(m.group(1)); pos = m.end()
        # `thread $sym` as an operand: one thread only, the symbol itself
        if len(out) >= 2 and out[-2] == 'thread' and out[-1].startswith('$'): del out[-2]
    return out


class Module:
    def __init__(self, text):
        self.types = {}       # name -> (size, align)
        self.data = {}        # name -> (align, items)
        self.funcs = {}
        self.parse(text)

    def parse(self, text):
        lines = text.split('\n')
        i = 0
        pend_export = False
        while i < len(lines):
            ln = lines[i].strip(); i += 1
            if not ln: continue
            t = tokens(ln)
            if t[0] in ('export', 'thread') and len(t) == 1: continue
            while t and t[0] in ('export', 'thread'): t = t[1:]
            if not t: continue
            if t[0] == 'type':
                self.parse_type(t)
            elif t[0] == 'data':
                self.parse_data(t)
            elif t[0] == 'function':
                f, i = self.parse_func(t, lines, i)
                self.funcs[f.name] = f
            else:
                raise ILError('unexpected top-level line %r' % ln)

    def parse_type(self, t):
        # type :name = [align N] { item, ... }  | union form { { .. } { .. } }
        name = t[1]; k = 3
        align = None
        if t[k] == 'align': align = int(t[k + 1]); k += 2
        assert t[k] == '{', t
        body = t[k + 1:-1]
        def layout(items):
            off = 0; al = 1
            j = 0
            while j < len(items):
                it = items[j]
                if it == ',': j += 1; continue
                n = 1
                if j + 1 < len(items) and re.fullmatch(r'\d+', items[j + 1]): n = int(items[j + 1]); jn = j + 2
                else: jn = j + 1
                if it.startswith(':'): s_, a_ = self.types[it]
                else: s_ = a_ = {'b': 1, 'h': 2, 'w': 4, 'l': 8, 's': 4, 'd': 8}[it]
                off = (off + a_ - 1) // a_ * a_ + s_ * n; al = max(al, a_)
                j = jn
            return (off + al - 1) // al * al, al
        if body and body[0] == '{':     # union
            size = 0; al = 1; cur = []
            depth = 0
            for x in body:
                if x == '{': depth += 1; cur = []; continue
                if x == '}':
                    depth -= 1; s_, a_ = layout(cur); size = max(size, s_); al = max(al, a_); continue
                cur.append(x)
            size = (size + al - 1) // al * al
        elif body and re.fullmatch(r'\d+', body[0]) and len(body) == 1:   # opaque: { N }
            size = int(body[0]); al = align or 1
        else:
            size, al = layout(body)
        if align: al = align
        self.types[name] = (size, al)

    def parse_data(self, t):
        name = t[1]; k = 3; align = 8
        if t[k] == 'align': align = int(t[k + 1]); k += 2
        assert t[k] == '{', t
        items = []; cls = None
        body = t[k + 1:]
        j = 0
        while j < len(body) and body[j] != '}':
            x = body[j]
            if x == ',': j += 1; continue
            if x in ('b', 'h', 'w', 'l', 's', 'd', 'z') and (cls is None or body[j - 1] == ','):
                cls = x; j += 1; continue
            if x in ('b', 'h', 'w', 'l', 's', 'd', 'z') and cls is not None and j > 0 and body[j - 1] != ',':
                cls = x; j += 1; continue
            # value
            if x.startswith('$'):
                off = 0
                if j + 2 < len(body) and body[j + 1] == '+': off = int(body[j + 2]); j += 2
                items.append((cls, ('sym', x, off)))
            elif x.startswith('"'):
                items.append((cls, ('str', unescape(x[1:-1]))))
            elif x.startswith(('s_', 'd_')):
                items.append((cls, ('flt', float(x[2:]))))
            else:
                items.append((cls, ('int', int(x))))
            j += 1
        self.data[name] = (align, items)

    def parse_func(self, t, lines, i):
        # function [ret] $name(params) {
        k = 1; ret = None
        if not t[k].startswith('$'): ret = t[k]; k += 1
        name = t[k]; k += 1
        assert t[k] == '('
        k += 1; params = []; variadic = False
        while t[k] != ')':
            if t[k] == ',': k += 1; continue
            if t[k] == '...': variadic = True; k += 1; continue
            params.append((t[k], t[k + 1])); k += 2
        f = Func(name, ret, params, variadic)
        cur = None
        while True:
            ln = lines[i].strip(); i += 1
            if ln == '}': break
            if not ln: continue
            tt = tokens(ln)
            if tt[0].startswith('@'):
                cur = [tt[0], [], [], None]; f.index[tt[0]] = len(f.blocks); f.blocks.append(cur); continue
            if cur is None: raise ILError('instruction outside a block in %s' % name)
            if cur[3] is not None:
                raise ILError('%s: instruction after the jump of block %s: %r' % (name, cur[0], ln))
            if tt[0] in ('jmp', 'jnz', 'ret', 'hlt'):
                cur[3] = tt
            elif len(tt) > 2 and tt[1] == '=' and tt[3] == 'phi':
                cur[1].append(tt)
            else:
                cur[2].append(tt)
        return f, i


def unescape(s):
    out = bytearray(); i = 0
    while i < len(s):
        c = s[i]
        if c == '\\':
            m = re.match(r'[0-7]{1,3}', s[i + 1:])
            if m: out.append(int(m.group(0), 8) & 255); i += 1 + len(m.group(0)); continue
            m = re.match(r'x([0-9a-fA-F]{1,2})', s[i + 1:])
            if m: out.append(int(m.group(1), 16)); i += 1 + len(m.group(0)); continue
            out.append({'n': 10, 't': 9, '\\': 92, '"': 34, 'r': 13, '0': 0, 'a': 7, 'b': 8, 'f': 12, 'v': 11, "'": 39}.get(s[i + 1], ord(s[i + 1]))); i += 2; continue
        out += c.encode('latin-1', 'replace'); i += 1
    return bytes(out)


class Machine:
    def __init__(self, mod, max_steps=5_000_000):
        self.m = mod
        self.mem = bytearray(1 << 16)
        self.top = 4096
        self.sym = {}
        self.out = []
        self.steps = 0; self.max_steps = max_steps
        self.depth = 0
        self.fnaddr = {}; self.addrfn = {}
        # functions get fake addresses
        for k, name in enumerate(mod.funcs):
            a = 0x7f000000 + 16 * k; self.fnaddr[name] = a; self.addrfn[a] = name
        for name, (align, items) in mod.data.items():
            size = 0
            for cls, v in items:
                size += self.item_size(cls, v)
            self.sym[name] = self.alloc(max(size, 1), max(align, 1))
        for name, (align, items) in mod.data.items():
            p = self.sym[name]
            for cls, v in items:
                n = self.item_size(cls, v)
                if cls == 'z': pass
                elif v[0] == 'str': self.mem[p:p + n] = v[1]
                elif v[0] == 'sym': self.store(p, {'b': 1, 'h': 2, 'w': 4, 'l': 8}[cls], self.symaddr(v[1]) + v[2])
                elif v[0] == 'flt': self.mem[p:p + n] = struct.pack('<f' if cls == 's' else '<d', f32(v[1]) if cls == 's' else v[1])
                else: self.store(p, {'b': 1, 'h': 2, 'w': 4, 'l': 8, 's': 4, 'd': 8}[cls], v[1])
                p += n

    def item_size(self, cls, v):
        if cls == 'z': return v[1]
        if v[0] == 'str': return len(v[1])
        return {'b': 1, 'h': 2, 'w': 4, 'l': 8, 's': 4, 'd': 8}[cls]

    def symaddr(self, name):
        if name in self.sym: return self.sym[name]
        if name in self.fnaddr: return self.fnaddr[name]
        if name in EXTERNALS:
            a = 0x7e000000 + 16 * len(self.addrfn); self.fnaddr[name] = a; self.addrfn[a] = name; return a
        raise ILError('undefined symbol %s' % name)

    def alloc(self, size, align):
        self.top = (self.top + align - 1) // align * align
        p = self.top; self.top += size
        while self.top + 64 > len(self.mem): self.mem.extend(bytes(len(self.mem)))
        return p

    def load(self, p, n):
        if p < 4096 or p + n > self.top: raise Trap('load of %d bytes at %#x outside every object' % (n, p))
        return int.from_bytes(self.mem[p:p + n], 'little')

    def store(self, p, n, v):
        if p < 4096 or p + n > self.top: raise Trap('store of %d bytes at %#x outside every object' % (n, p))
        self.mem[p:p + n] = (v & ((1 << 8 * n) - 1)).to_bytes(n, 'little')

    # ------------------------------------------------------------------ execution
    def call(self, name, args):
        """args: list of (cls, value)"""
        if name not in self.m.funcs:
            if name in EXTERNALS: return EXTERNALS[name](self, args)
            raise ILError('call to undefined function %s' % name)
        f = self.m.funcs[name]
        self.depth += 1
        if self.depth > getattr(self, 'depth_limit', 200): raise Trap('recursion too deep')
        mark = self.top
        env = {}
        named = args[:len(f.params)]
        if len(named) != len(f.params): raise ILError('%s: %d arguments for %d parameters' % (name, len(args), len(f.params)))
        for (pc, pn), (ac, av) in zip(f.params, named):
            if pc.startswith(':'):
                size, al = self.m.types[pc]
                cp = self.alloc(max(size, 1), max(al, 8)); self.mem[cp:cp + size] = self.mem[av:av + size]; env[pn] = cp
            else:
                if ac != pc and not ({ac, pc} <= {'w', 'l'} and False):
                    raise ILError('%s: argument class %s for parameter %s of class %s' % (name, ac, pn, pc))
                env[pn] = av
        varargs = args[len(f.params):]
        bi = 0; prev = None
        try:
            while True:
                label, phis, insts, jump = f.blocks[bi]
                if phis:
                    vals = []
                    for t in phis:
                        srcs = t[4:]
                        got = None
                        for k in range(0, len(srcs), 3 if ',' in srcs else 2):
                            pass
                        pairs = [x for x in srcs if x != ',']
                        for k in range(0, len(pairs), 2):
                            if pairs[k] == prev: got = self.val(pairs[k + 1], t[2], env); break
                        if got is None: raise ILError('%s: phi in %s has no source for predecessor %s' % (name, label, prev))
                        vals.append((t[0], got))
                    for d, v in vals: env[d] = v
                for t in insts:
                    self.steps += 1
                    if self.steps > self.max_steps: raise Trap('step limit')
                    self.inst(f, t, env, varargs)
                if jump is None:
                    bi += 1
                    if bi >= len(f.blocks): raise ILError('%s: fell off the end' % name)
                    prev = label; continue
                k = jump[0]
                if k == 'jmp': prev = label; bi = f.index[jump[1]]
                elif k == 'jnz':
                    c = self.val(jump[1], 'w', env) & M32
                    prev = label; bi = f.index[jump[3] if c else jump[5]]
                elif k == 'ret':
                    if len(jump) > 1:
                        cls = f.ret
                        v = self.val(jump[1], 'l' if cls and cls.startswith(':') else cls, env)
                        if cls and cls.startswith(':'):
                            # the aggregate is copied out to storage of the caller
                            size, al = self.m.types[cls]
                            data = bytes(self.mem[v:v + size])
                            self.top = mark
                            p = self.alloc(max(size, 1), max(al, 8)); self.mem[p:p + size] = data
                            mark = self.top
                            return p
                        return v
                    return None
                elif k == 'hlt': raise Trap('hlt executed in %s' % name)
        finally:
            self.top = mark
            self.depth -= 1

    def val(self, x, cls, env):
        if x.startswith('%'):
            if x not in env: raise ILError('use of undefined temporary %s' % x)
            v = env[x]
            if cls == 'w' and isinstance(v, int): return v & M32
            return v
        if x.startswith('$'): return self.symaddr(x)
        if x.startswith('s_'): return f32(float(x[2:]))
        if x.startswith('d_'): return float(x[2:])
        v = int(x)
        if cls in ('s', 'd'):
            # integer literal used as float bits
            return struct.unpack('<f', struct.pack('<I', v & M32))[0] if cls == 's' else struct.unpack('<d', struct.pack('<Q', v & M64))[0]
        return v & (M32 if cls == 'w' else M64)

    def inst(self, f, t, env, varargs):
        if len(t) > 1 and t[1] == '=':
            dst = t[0]; cls = t[2]; op = t[3]; a = [x for x in t[4:] if x != ',']
            env[dst] = self.compute(f, cls, op, a, env, t, varargs)
            return
        op = t[0]; a = [x for x in t[1:] if x != ',']
        if op.startswith('store'):
            k = op[5]
            if k in 'bhwl':
                self.store(self.val(a[1], 'l', env), {'b': 1, 'h': 2, 'w': 4, 'l': 8}[k], self.val(a[0], 'w' if k != 'l' else 'l', env))
            elif k == 's': p = self.val(a[1], 'l', env); self.chk(p, 4); self.mem[p:p + 4] = struct.pack('<f', f32(self.val(a[0], 's', env)))
            elif k == 'd': p = self.val(a[1], 'l', env); self.chk(p, 8); self.mem[p:p + 8] = struct.pack('<d', self.val(a[0], 'd', env))
            else: raise ILError('unknown store %s' % op)
        elif op == 'call':
            self.docall(t, env)
        elif op == 'vastart':
            p = self.val(a[0], 'l', env)
            # our va_list: pointer to a cursor cell holding an index into self.valists
            self.valists = getattr(self, 'valists', [])
            self.valists.append(list(varargs))
            self.store(p, 8, len(self.valists) << 32)
        else:
            raise ILError('unknown instruction %s' % ' '.join(t))

    def chk(self, p, n):
        if p < 4096 or p + n > self.top: raise Trap('access of %d bytes at %#x outside every object' % (n, p))

    def docall(self, t, env):
        # t: ['call', target, '(', cls, val, ',', ... ')']
        target = t[1]
        args = []; k = 3
        while t[k] != ')':
            if t[k] == ',': k += 1; continue
            if t[k] == '...': k += 1; continue
            c = t[k]; v = t[k + 1]; k += 2
            if v in (')', ','): raise ILError('malformed call %s' % ' '.join(t))
            args.append((c, self.val(v, 'l' if c.startswith(':') else c, env)))
        if target.startswith('$'): name = target
        else:
            addr = self.val(target, 'l', env)
            if addr not in self.addrfn: raise Trap('indirect call through %#x, not a function' % addr)
            name = self.addrfn[addr]
        return self.call(name, args)

    def compute(self, f, cls, op, a, env, t, varargs):
        W = 32 if cls == 'w' else 64
        MASK = (1 << W) - 1
        V = lambda i, c=None: self.val(a[i], c or cls, env)
        if op == 'call':
            r = self.docall(t[3:], env)
            if r is None: raise ILError('value of a call that returned nothing: %s' % ' '.join(t))
            return r & MASK if cls in ('w', 'l') and isinstance(r, int) else r
        if op in ('alloc4', 'alloc8', 'alloc16'):
            n = V(0, 'l')
            if n > 1 << 24: raise Trap('alloc of %d bytes' % n)
            p = self.alloc(max(n, 1), int(op[5:]))
            self.mem[p:p + n] = b'\xAA' * n         # indeterminate
            return p
        if op == 'copy': return V(0)
        if op == 'cast':
            if cls == 'w': return struct.unpack('<I', struct.pack('<f', f32(V(0, 's'))))[0]
            if cls == 'l': return struct.unpack('<Q', struct.pack('<d', V(0, 'd')))[0]
            if cls == 's': return struct.unpack('<f', struct.pack('<I', V(0, 'w') & M32))[0]
            return struct.unpack('<d', struct.pack('<Q', V(0, 'l') & M64))[0]
        if op.startswith('load'):
            k = op[4:]
            p = V(0, 'l')
            if k in ('s',): self.chk(p, 4); return struct.unpack('<f', self.mem[p:p + 4])[0]
            if k in ('d',): self.chk(p, 8); return struct.unpack('<d', self.mem[p:p + 8])[0]
            n, signed = {'ub': (1, 0), 'sb': (1, 1), 'uh': (2, 0), 'sh': (2, 1), 'w': (4, 1), 'uw': (4, 0), 'sw': (4, 1), 'l': (8, 0)}[k]
            v = self.load(p, n)
            if signed: v = sx(v, 8 * n)
            return v & MASK
        if op == 'vaarg':
            # the va_list storage holds (id of the argument list, position): copying the storage (va_copy) gives an independent cursor
            # one 8-byte word (the smallest va_list, riscv64's pointer): list id in the upper half, position in the lower half
            p = V(0, 'l'); word = self.load(p, 8); idx, pos = (word >> 32) - 1, word & 0xffffffff
            if idx < 0 or idx >= len(getattr(self, 'valists', [])): raise Trap('va_arg on a va_list that was not started')
            lst = self.valists[idx]
            if pos >= len(lst): raise Trap('va_arg past the last argument')
            c, v = lst[pos]; self.store(p, 8, (idx + 1) << 32 | (pos + 1))
            if (c in ('s', 'd')) != (cls in ('s', 'd')): raise Trap('va_arg class %s for an argument passed as %s' % (cls, c))
            if cls in ('w', 'l') and c in ('w', 'l') and cls != c and cls == 'l': raise Trap('va_arg reads 64 bits of an argument passed as 32 bits')
            return v & MASK if isinstance(v, int) else v
        if cls in ('s', 'd'):
            rnd = f32 if cls == 's' else (lambda x: x)
            if op in ('add', 'sub', 'mul', 'div'):
                x, y = V(0), V(1)
                try:
                    r = {'add': lambda: x + y, 'sub': lambda: x - y, 'mul': lambda: x * y, 'div': lambda: x / y}[op]()
                except ZeroDivisionError:
                    r = math.nan if x == 0 or x != x else math.copysign(math.inf, x) * math.copysign(1, y)
                except OverflowError:
                    r = math.inf
                return rnd(r)
            if op == 'neg': return -V(0)
            if op == 'exts': return V(0, 's')
            if op == 'truncd': return f32(V(0, 'd'))
            if op in ('swtof', 'uwtof', 'sltof', 'ultof'):
                v = self.val(a[0], 'w' if op[1] == 'w' else 'l', env)
                bits = 32 if op[1] == 'w' else 64
                v = sx(v, bits) if op[0] == 's' else v & ((1 << bits) - 1)
                return int_to_float(v, 24 if cls == 's' else 53)
            raise ILError('unknown float op %s' % op)
        # integer results
        if op in ('stosi', 'stoui', 'dtosi', 'dtoui'):
            x = self.val(a[0], op[0], env)
            if x != x or abs(x) == math.inf: raise Trap('float to integer conversion of %r' % x)
            v = int(x)
            return v & MASK
        if op[0] == 'c' and len(op) >= 4 and op not in ('copy', 'cast', 'call'):
            k = op[-1]; cc = op[1:-1]
            if k in 'wl':
                bits = 32 if k == 'w' else 64
                x = self.val(a[0], k, env) & ((1 << bits) - 1); y = self.val(a[1], k, env) & ((1 << bits) - 1)
                if cc[0] == 's' and cc not in ('sle', 'slt', 'sge', 'sgt'): raise ILError('unknown compare %s' % op)
                if cc in ('sle', 'slt', 'sge', 'sgt'): x, y = sx(x, bits), sx(y, bits); cc = cc[1:]
                elif cc in ('ule', 'ult', 'uge', 'ugt'): cc = cc[1:]
                return int({'eq': x == y, 'ne': x != y, 'le': x <= y, 'lt': x < y, 'ge': x >= y, 'gt': x > y}[cc])
            x = self.val(a[0], k, env); y = self.val(a[1], k, env)
            un = x != x or y != y
            if cc == 'o': return int(not un)
            if cc == 'uo': return int(un)
            if un: return int(cc == 'ne')
            return int({'eq': x == y, 'ne': x != y, 'le': x <= y, 'lt': x < y, 'ge': x >= y, 'gt': x > y}[cc])
        if op in ('extsw', 'extuw', 'extsh', 'extuh', 'extsb', 'extub'):
            bits = {'w': 32, 'h': 16, 'b': 8}[op[4]]
            v = self.val(a[0], 'w', env) & ((1 << bits) - 1)
            if op[3] == 's': v = sx(v, bits)
            return v & MASK
        x = V(0)
        if op == 'neg': return (-x) & MASK
        y = self.val(a[1], 'w' if op in ('shl', 'shr', 'sar') else cls, env)
        if op == 'add': return (x + y) & MASK
        if op == 'sub': return (x - y) & MASK
        if op == 'mul': return (x * y) & MASK
        if op in ('div', 'rem'):
            xs, ys = sx(x, W), sx(y, W)
            if ys == 0: raise Trap('division by zero')
            if xs == -(1 << (W - 1)) and ys == -1: raise Trap('signed division overflow')
            q = abs(xs) // abs(ys) * (1 if (xs < 0) == (ys < 0) else -1)
            return (q if op == 'div' else xs - q * ys) & MASK
        if op in ('udiv', 'urem'):
            if y == 0: raise Trap('division by zero')
            return (x // y if op == 'udiv' else x % y) & MASK
        if op == 'and': return x & y
        if op == 'or': return x | y
        if op == 'xor': return x ^ y
        if op in ('shl', 'shr', 'sar'):
            n = y & (W - 1)        # hardware masks the count; C leaves counts >= width undefined
            if (y & M32) >= W: raise Trap('shift count %d for a %d-bit value' % (y & M32, W))
            if op == 'shl': return (x << n) & MASK
            if op == 'shr': return (x & MASK) >> n
            return (sx(x, W) >> n) & MASK
        raise ILError('unknown op %s in %s' % (op, ' '.join(t)))


def cstr(mach, p):
    out = bytearray()
    while True:
        b = mach.load(p, 1)
        if not b: return bytes(out)
        out.append(b); p += 1


def x_printf(mach, args):
    fmt = cstr(mach, args[0][1]).decode('latin-1'); rest = list(args[1:])
    def sub(m):
        spec = m.group(0)
        if spec == '%%': return '%'
        c, v = rest.pop(0)
        conv = spec[-1]; ln = spec[1:-1]
        if conv in 'di':
            bits = 64 if 'l' in ln else 32
            return str(sx(v, bits))
        if conv == 'u': return str(v & (M64 if 'l' in ln else M32))
        if conv == 'x': return '%x' % (v & (M64 if 'l' in ln else M32))
        if conv == 'c': return chr(v & 255)
        if conv == 's': return cstr(mach, v).decode('latin-1')
        if conv in 'fg': return ('%' + conv) % v
        raise ILError('printf conversion %s' % spec)
    mach.out.append(re.sub(r'%%|%l{0,2}[diuxcsfg]', sub, fmt))
    return 0


EXTERNALS = {
    '$printf': x_printf,
    '$putchar': lambda m, a: (m.out.append(chr(a[0][1] & 255)), a[0][1])[1],
    '$puts': lambda m, a: (m.out.append(cstr(m, a[0][1]).decode('latin-1') + '\n'), 0)[1],
    '$abort': lambda m, a: (_ for _ in ()).throw(Trap('abort() called')),
}


def run(text, entry='$main', max_steps=5_000_000):
    mod = Module(text)
    mach = Machine(mod, max_steps)
    r = mach.call(entry, [])
    return r, ''.join(mach.out)


if __name__ == '__main__':
    text = open(sys.argv[1]).read()
    try:
        r, out = run(text, sys.argv[2] if len(sys.argv) > 2 else '$main')
    except (Trap, ILError) as e:
        print('%s: %s' % (type(e).__name__, e)); sys.exit(3)
    sys.stdout.write(out)
    print('return', None if r is None else sx(r, 32))
