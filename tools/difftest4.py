#!/usr/bin/env python3
"""DISCOVERY AID ONLY - not a registered check.  Snippet differential: each program is a sequence of small self-contained
blocks (aggregates, pointers, control flow, calls, variadics, ...) with random parameters; every block ends with done(n),
so a difference between the native run (gcc) and the interpreted cproc IL (tools/qbei.py) names the block.

usage: difftest4.py <first seed> <count> [-j N]
"""
import os, random, subprocess, sys, tempfile, shutil
sys.path.insert(0, os.path.dirname(os.path.abspath(__file__)))
import qbei

CPROC = os.environ.get('CPROC_QBE', '/repo/cproc-qbe')

PRE = r'''
int printf(const char *, ...);
typedef unsigned long long u64;
static u64 chk = 14695981039346656037ull;
static void mix(u64 v) { chk = (chk ^ v) * 1099511628211ull; chk ^= chk >> 29; }
static void mixd(double x) { mix(x != x ? 99u : x > 1e18 ? 98u : x < -1e18 ? 97u : (u64)(long long)(x * 8.0)); }
static void done(int n) { printf("%d %llu\n", n, chk); chk = 14695981039346656037ull; }
'''

INTS = ['char', 'signed char', 'unsigned char', 'short', 'unsigned short', 'int', 'unsigned', 'long', 'unsigned long', 'long long', 'unsigned long long']
UINTS = ['unsigned char', 'unsigned short', 'unsigned', 'unsigned long', 'unsigned long long']
BITS = {'char': 8, 'signed char': 8, 'unsigned char': 8, 'short': 16, 'unsigned short': 16, 'int': 32, 'unsigned': 32, 'long': 64, 'unsigned long': 64, 'long long': 64, 'unsigned long long': 64}


class G:
    def __init__(self, seed):
        self.r = random.Random(seed)
        self.top = []      # file-scope declarations
        self.n = 0

    def id(self, p):
        self.n += 1
        return '%s%d' % (p, self.n)

    def small(self, lo=-50, hi=50):
        return str(self.r.randint(lo, hi))

    def uval(self, t):
        b = BITS[t]
        v = self.r.choice([0, 1, 2, 3, 7, 100, 255, 256, 65535, 65536, (1 << b) - 1, (1 << (b - 1)), (1 << (b - 1)) - 1, self.r.getrandbits(b)]) & ((1 << b) - 1)
        return '%du%s' % (v, 'll' if b == 64 else '')

    # ------------------------------------------------------------------ snippets: each returns the text of a block
    def s_array_sum(self):
        r = self.r; t = r.choice(INTS); n = r.randint(1, 9); a = self.id('a')
        vals = [r.randint(-100, 100) if 'unsigned' not in t else r.randint(0, 200) for _ in range(r.randint(1, n))]
        form = r.choice(['index', 'ptr', 'ptrcmp', 'rev'])
        s = '\t{ %s %s[%d] = {%s}; long acc = 0; int i;\n' % (t, a, n, ', '.join(map(str, vals)))
        if form == 'index': s += '\tfor (i = 0; i < %d; i++) acc += %s[i] * (i + 1);\n' % (n, a)
        elif form == 'ptr': s += '\t{ %s *p = %s; for (i = 0; i < %d; i++) acc += *p++ * (i + 1); }\n' % (t, a, n)
        elif form == 'ptrcmp': s += '\t{ %s *p; for (p = %s; p < %s + %d; p++) acc = acc * 3 + *p; mix(p - %s); }\n' % (t, a, a, n, a)
        else: s += '\tfor (i = %d; i-- > 0;) acc = acc * 5 + %s[i];\n' % (n, a)
        return s + '\tmix(acc); mix(sizeof %s); mix(sizeof %s / sizeof %s[0]); }\n' % (a, a, a)

    def s_array2d(self):
        r = self.r; t = r.choice(INTS); n, m = r.randint(1, 4), r.randint(1, 5); a = self.id('m')
        s = '\t{ %s %s[%d][%d]; int i, j; long acc = 0;\n' % (t, a, n, m)
        s += '\tfor (i = 0; i < %d; i++) for (j = 0; j < %d; j++) %s[i][j] = (%s)(i * %d + j * %d + %s);\n' % (n, m, a, t, r.randint(1, 9), r.randint(1, 9), self.small(0, 20))
        s += '\tfor (j = 0; j < %d; j++) for (i = 0; i < %d; i++) acc = acc * 7 + %s[i][j];\n' % (m, n, a)
        s += '\t{ %s (*row)[%d] = %s; mix(row[%d][%d]); mix((*(row + %d))[%d]); mix(*(*(%s + %d) + %d)); mix(sizeof *row); mix(&%s[%d][%d] - &%s[0][0]); }\n' % (
            t, m, a, n - 1, m - 1, n - 1, 0, a, n - 1, m - 1, a, n - 1, m - 1, a)
        return s + '\tmix(acc); mix(sizeof %s); }\n' % a

    def mkstruct(self, depth=0):
        """-> (tag, [(name, ctype text, kind, extra)])"""
        r = self.r; tag = self.id('S'); fields = []; body = ''
        for i in range(r.randint(1, 5)):
            k = r.random(); fn = 'f%d' % i
            if k < 0.45:
                t = r.choice(INTS + ['double', 'float']); fields.append((fn, t, 'scalar', None)); body += '\t%s %s;\n' % (t, fn)
            elif k < 0.65:
                t = r.choice(['int', 'unsigned', 'signed char', 'unsigned char', 'short', 'unsigned short']); w = r.randint(1, BITS[t])
                fields.append((fn, t, 'bf', w)); body += '\t%s %s : %d;\n' % (t, fn, w)
                if r.random() < 0.2: body += '\t%s : %d;\n' % (t, r.choice([0, r.randint(1, BITS[t])]))
            elif k < 0.85:
                t = r.choice(INTS); n = r.randint(1, 4); fields.append((fn, t, 'array', n)); body += '\t%s %s[%d];\n' % (t, fn, n)
            elif depth < 2:
                sub = self.mkstruct(depth + 1); fields.append((fn, sub, 'struct', None)); body += '\tstruct %s %s;\n' % (sub[0], fn)
            else:
                fields.append((fn, 'int', 'scalar', None)); body += '\tint %s;\n' % fn
        self.top.append('struct %s {\n%s};\n' % (tag, body))
        return tag, fields

    def leaves(self, st, path):
        out = []
        for fn, t, kind, x in st[1]:
            p = '%s.%s' % (path, fn)
            if kind in ('scalar', 'bf'): out.append((p, t, kind, x))
            elif kind == 'array': out += [('%s[%d]' % (p, i), t, 'scalar', None) for i in range(x)]
            else: out += self.leaves(t, p)
        return out

    def fill(self, st, path, k0):
        s = ''
        for k, (p, t, kind, x) in enumerate(self.leaves(st, path)):
            v = (k0 + k * 7) % 97 + 1
            if kind == 'bf': v = v % (1 << (x - 1 if 'unsigned' not in t else x)) if x > 1 or 'unsigned' in t else 0
            s += '\t%s = %s;\n' % (p, ('%d.5' % v) if t in ('double', 'float') else str(v))
        return s

    def dump(self, st, path):
        return ''.join('\t%s(%s);\n' % ('mixd' if t in ('double', 'float') else 'mix', p) for p, t, kind, x in self.leaves(st, path))

    def s_struct_copy(self):
        r = self.r; st = self.mkstruct(); a, b = self.id('x'), self.id('y')
        s = '\t{ struct %s %s, %s, *p = &%s;\n' % (st[0], a, b, a) + self.fill(st, a, r.randint(0, 50))
        form = r.choice(['assign', 'ptr', 'chain', 'cond', 'comma', 'array'])
        if form == 'assign': s += '\t%s = %s;\n' % (b, a)
        elif form == 'ptr': s += '\t%s = *p;\n' % b
        elif form == 'chain':
            c = self.id('z'); s += '\tstruct %s %s; %s = %s = %s;\n' % (st[0], c, c, b, a) + self.dump(st, c)
        elif form == 'cond':
            s += self.fill(st, b, 3) + '\t{ struct %s c = %s ? %s : %s;\n' % (st[0], r.choice(['1', '0', a + '.' + st[1][0][0].split('[')[0] if st[1][0][2] == 'scalar' else '1']), a, b) + self.dump(st, 'c') + '\t}\n'
        elif form == 'comma':
            s += '\t%s = (mix(1), %s);\n' % (b, a)
        else:
            s += '\t{ struct %s arr[3]; arr[1] = %s; arr[2] = arr[1]; arr[0] = arr[2]; %s = arr[0]; mix(sizeof arr); }\n' % (st[0], a, b)
        return s + self.dump(st, b) + '\tmix(sizeof(struct %s)); mix(_Alignof(struct %s)); }\n' % (st[0], st[0])

    def s_struct_call(self):
        r = self.r; st = self.mkstruct(); f = self.id('fn'); a = self.id('x')
        lv = [l for l in self.leaves(st, 'v') if l[2] in ('scalar', 'bf') and l[1] not in ('double', 'float')]
        if not lv: return self.s_array_sum()
        p0 = r.choice(lv)[0]
        extra = r.choice(INTS)
        self.top.append('static struct %s %s(struct %s v, %s k, struct %s *out) {\n\t%s += 1;\n\tif (out) *out = v;\n\tmix(k);\n\treturn v;\n}\n' % (st[0], f, st[0], extra, st[0], p0))
        s = '\t{ struct %s %s, o1, r1;\n' % (st[0], a) + self.fill(st, a, r.randint(0, 30))
        s += '\tr1 = %s(%s, %s, &o1);\n' % (f, a, self.small()) + self.dump(st, 'r1') + self.dump(st, 'o1') + self.dump(st, a)
        leaf = r.choice(self.leaves(st, ''))        # access a member of the returned value directly
        s += '\t%s(%s(%s, 3, 0)%s);\n' % ('mixd' if leaf[1] in ('double', 'float') else 'mix', f, a, leaf[0])
        return s + '\t}\n'

    def s_bitfield_ops(self):
        r = self.r; tag = self.id('B'); fs = []
        body = ''
        for i in range(r.randint(2, 6)):
            t = r.choice(['int', 'unsigned', 'signed char', 'unsigned char', 'short', 'unsigned short', '_Bool']); w = 1 if t == '_Bool' else r.randint(1, BITS.get(t, 1))
            fs.append(('b%d' % i, t, w)); body += '\t%s b%d : %d;\n' % (t, i, w)
            if r.random() < 0.25: body += '\tint : %d;\n' % r.choice([0, 3, 9])
            if r.random() < 0.2: body += '\tchar c%d;\n' % i
        self.top.append('struct %s {\n%s};\n' % (tag, body))
        v = self.id('v')
        s = '\t{ struct %s %s = {0}; struct %s *p = &%s; int i;\n' % (tag, v, tag, v)
        for i in range(r.randint(4, 12)):
            fn, t, w = r.choice(fs); acc = r.choice(['%s.%s' % (v, fn), 'p->%s' % fn])
            unsignedish = 'unsigned' in t or t == '_Bool'
            op = r.choice(['=', '+=', '-=', '*=', '|=', '&=', '^=', '++', '--', '<<=', '>>=']) if t != '_Bool' else r.choice(['=', '|=', '&=', '^='])
            val = r.randint(0, 300)
            if op in ('++', '--'): s += '\tmix(%s%s); mix(%s%s);\n' % (acc, op, op, acc)
            elif op in ('<<=', '>>='):
                if not unsignedish and op == '<<=': op = '>>='
                s += '\tmix(%s %s %d);\n' % (acc, op, r.randint(0, 7))
            elif op in ('+=', '-=', '*=') and not unsignedish and w >= 31: s += '\tmix(%s = %d);\n' % (acc, val)
            else: s += '\tmix(%s %s %d);\n' % (acc, op, val if op != '*=' else r.randint(0, 9))
        s += ''.join('\tmix(%s.%s);\n' % (v, fn) for fn, t, w in fs)
        return s + '\tmix(sizeof %s); }\n' % v

    def s_union(self):
        r = self.r; tag = self.id('U'); v = self.id('u')
        t = r.choice(['unsigned', 'unsigned long', 'unsigned short'])
        n = BITS[t] // 8
        self.top.append('union %s { %s w; unsigned char b[%d]; struct { unsigned char lo; unsigned char rest[%d]; } s; };\n' % (tag, t, n, n - 1))
        s = '\t{ union %s %s; int i; %s.w = %s;\n' % (tag, v, v, self.uval(t))
        s += '\tfor (i = 0; i < %d; i++) mix(%s.b[i]);\n\tmix(%s.s.lo); %s.b[%d] ^= 0x5a; mix(%s.w); %s.s.rest[0] += 3; mix(%s.w);\n' % (n, v, v, v, r.randrange(n), v, v, v)
        return s + '\t{ union %s c = %s; union %s *p = &c; p->b[0]++; mix(c.w); mix(%s.w); mix(sizeof c); } }\n' % (tag, v, tag, v)

    def s_switch(self):
        r = self.r; t = r.choice(['int', 'unsigned', 'long', 'unsigned char', 'short', 'long long', 'unsigned long'])
        labels = r.sample([0, 1, 2, 3, 4, 5, 7, 9, 10, 100, 127, 128, 255, -1, -2, -128, 1000, 65535], r.randint(1, 8))
        if 'unsigned' in t: labels = [abs(l) for l in labels]
        labels = list(dict.fromkeys(labels))
        x = self.id('k')
        s = '\t{ %s %s; int hit = 0;\n\tfor (%s = (%s)%d; hit < %d; %s += %d) {\n\t\thit++;\n\t\tswitch (%s) {\n' % (t, x, x, t, min(labels) - 1 if 'unsigned' not in t else 0, r.randint(5, 40), x, r.choice([1, 1, 2, 3, 7]), x)
        for i, l in enumerate(labels):
            s += '\t\tcase %d: mix(%d);%s\n' % (l, i + 10, r.choice([' break;', ' break;', '', ' continue;', ' if (hit & 1) break;']))
        if r.random() < 0.7: s += '\t\tdefault: mix(77);%s\n' % r.choice([' break;', ''])
        return s + '\t\t}\n\t\tmix(hit);\n\t}\n\tmix(%s); }\n' % x

    def s_goto(self):
        r = self.r; n = r.randint(2, 9); L = self.id('L')
        return ('\t{ int i = 0, acc = %s;\n\tagain%s:\n\tacc = acc * 3 + i;\n\tif (i == %d) goto out%s;\n\ti++;\n\tif (acc & 1) goto again%s;\n\tacc += 5;\n\tgoto again%s;\n\tout%s:\n\tmix(acc); mix(i); }\n'
                % (self.small(), L, n, L, L, L, L))

    def s_loops(self):
        r = self.r; t = r.choice(['int', 'unsigned', 'long', 'unsigned char', 'short']); n = r.randint(1, 12)
        form = r.choice(['for', 'while', 'do', 'nested', 'comma'])
        if form == 'for': return '\t{ %s i; long acc = 0; for (i = 0; i < %d; i++) { if (i %% 3 == 1) continue; if (acc > 1000) break; acc += i * i + %s; } mix(acc); mix(i); }\n' % (t, n, self.small(0, 9))
        if form == 'while': return '\t{ %s i = %d; long acc = 1; while (i-- > 0) { acc = acc * 3 + i; if (acc %% 7 == 0) continue; acc ^= 0x55; } mix(acc); mix(i); }\n' % (t if t != 'unsigned char' else 'int', n)
        if form == 'do': return '\t{ %s i = 0; long acc = 0; do { acc += i; if (i == %d) continue; acc *= 2; } while (++i < %d); mix(acc); mix(i); }\n' % (t, n // 2, n)
        if form == 'nested': return '\t{ int i, j; long acc = 0; for (i = 0; i < %d; i++) { for (j = i; j < %d; j++) { if (j == %d) break; acc += i * j; } if (i == %d) continue; acc ^= i; } mix(acc); }\n' % (n, n, n // 2 + 1, n // 3)
        return '\t{ int i, j; long acc = 0; for (i = 0, j = %d; i < j; i++, j--) acc = acc * 11 + i - j; mix(acc); mix(i); mix(j); }\n' % n

    def s_recursion(self):
        r = self.r; f = self.id('rec'); t = r.choice(['int', 'long', 'unsigned', 'unsigned long long'])
        self.top.append('static %s %s(%s n, %s acc) { if (n == 0) return acc; return %s(n - 1, acc * 3u + n); }\n' % (t, f, t, t, f) if 'unsigned' in t else
                        'static %s %s(%s n, %s acc) { if (n == 0) return acc; return %s(n - 1, (acc %% 100000) * 3 + n); }\n' % (t, f, t, t, f))
        g = self.id('fib')
        self.top.append('static unsigned %s(unsigned n) { return n < 2 ? n : %s(n - 1) + %s(n - 2); }\n' % (g, g, g))
        return '\tmix(%s(%d, 1)); mix(%s(%d));\n' % (f, r.randint(0, 20), g, r.randint(0, 12))

    def s_fptr(self):
        r = self.r; n = r.randint(2, 5); fs = []
        for i in range(n):
            f = self.id('op'); fs.append(f)
            self.top.append('static long %s(long a, int b) { return %s; }\n' % (f, r.choice(['a + b', 'a - b', 'a * (b & 7)', 'a ^ b', '(a * 2) | (b & 1)', 'b - a', 'a'])))
        tab = self.id('tab')
        self.top.append('static long (*%s[%d])(long, int) = {%s};\n' % (tab, n, ', '.join(fs)))
        return ('\t{ long acc = %s; int i; long (*fp)(long, int) = %s; for (i = 0; i < %d; i++) { acc = %s[i %% %d](acc, i); acc = (*fp)(acc, 2); fp = %s[(i + 1) %% %d]; } mix(acc); mix(fp == %s[%d]); mix(sizeof %s / sizeof %s[0]); }\n'
                % (self.small(), fs[0], r.randint(1, 12), tab, n, tab, n, tab, r.randrange(n), tab, tab))

    def s_varargs(self):
        r = self.r; f = self.id('va'); kinds = [r.choice('ildup') for _ in range(r.randint(0, 8))]
        self.top.append('static long %s(const char *fmt, ...) {\n\t__builtin_va_list ap; long acc = 0;\n\t__builtin_va_start(ap, fmt);\n\tfor (; *fmt; fmt++) switch (*fmt) {\n'
                        '\tcase \'i\': acc = acc * 3 + __builtin_va_arg(ap, int); break;\n\tcase \'l\': acc = acc * 5 + __builtin_va_arg(ap, long); break;\n'
                        '\tcase \'d\': acc = acc * 7 + (long)(__builtin_va_arg(ap, double) * 4); break;\n\tcase \'u\': acc = acc * 11 + (long)__builtin_va_arg(ap, unsigned); break;\n'
                        '\tcase \'p\': acc = acc * 13 + *__builtin_va_arg(ap, int *); break;\n\t}\n\t__builtin_va_end(ap);\n\treturn acc;\n}\n' % f)
        args = []
        for k in kinds:
            if k == 'i': args.append(r.choice([self.small(), '(short)%s' % self.small(), '(char)%d' % r.randint(0, 100), '(unsigned char)200']))
            elif k == 'l': args.append('%sL' % self.small(-100000, 100000))
            elif k == 'd': args.append(r.choice(['%d.25' % r.randint(-50, 50), '(float)%d.5f' % r.randint(0, 9), '1e3']))
            elif k == 'u': args.append('%du' % r.randint(0, 4000000000))
            else: args.append('&pv')
        return '\t{ int pv = %s; mix(%s("%s"%s)); }\n' % (self.small(), f, ''.join(kinds), ''.join(', ' + a for a in args))

    def s_strings(self):
        r = self.r; w = ''.join(r.choice('abcxyz019 _') for _ in range(r.randint(0, 9)))
        a = self.id('s'); n = len(w) + r.choice([1, 1, 2, 5])
        s = '\t{ char %s[%d] = "%s"; const char *p = "%s"; int i, len = 0;\n\twhile (p[len]) len++;\n\tmix(len); mix(sizeof %s); mix(sizeof "%s");\n' % (a, n, w, w + 'q', a, w)
        s += '\tfor (i = 0; i < %d; i++) mix(%s[i]);\n\tmix("%s"[%d]); mix(*("%s" + %d)); mix(p[len - 1] == \'q\');\n' % (n, a, w + 'z', r.randint(0, len(w)), w + 'k', r.randint(0, len(w)))
        return s + '\t{ char c = \'%s\'; signed char sc = (signed char)%d; unsigned char uc = (unsigned char)%d; mix(c); mix(sc); mix(uc); mix(c + sc); mix(uc << 1); mix(\'\\%o\'); mix(\'\\x%x\'); } }\n' % (
            r.choice('aZ09~'), r.randint(-128, 127), r.randint(0, 255), r.randint(0, 127), r.randint(0, 127))

    def s_enum(self):
        r = self.r; tag = self.id('E'); vals = []; cur = 0; body = []
        for i in range(r.randint(1, 6)):
            nm = '%s_%d' % (tag, i)
            if r.random() < 0.5:
                cur = r.choice([0, 1, -1, 5, 100, -100, 255, 65536, 2147483647, -2147483647 - 1 if False else -2147483647]); body.append('%s = %d' % (nm, cur))
            else: body.append(nm)
            vals.append((nm, cur)); cur += 1
            if cur > 2147483647: cur = 0; body[-1] = '%s = 7' % nm; vals[-1] = (nm, 7); cur = 8
        self.top.append('enum %s { %s };\n' % (tag, ', '.join(body)))
        v = self.id('e')
        s = '\t{ enum %s %s = %s; int i = %s; mix(%s); mix(%s + 1); mix(sizeof %s); mix(%s == %s); mix(-%s);\n' % (tag, v, vals[-1][0], vals[0][0], v, v, v, v, vals[0][0], v)
        uniq = {}
        for nm, val in vals: uniq.setdefault(val, nm)
        s += '\tswitch (%s) { %s default: mix(0); }\n' % (v, ' '.join('case %s: mix(%d); break;' % (nm, k + 1) for k, nm in enumerate(uniq.values())))
        return s + ''.join('\tmix(%s);\n' % nm for nm, _ in vals) + '\t}\n'

    def s_compound_literal(self):
        r = self.r; n = r.randint(1, 6)
        s = '\t{ int i; long acc = 0;\n\tfor (i = 0; i < %d; i++) { int *p = (int[]){i, i * 2, %s}; acc += p[0] + p[1] * 3 + p[2]; p[1] = 9; acc += p[1]; }\n' % (n, self.small())
        s += '\t{ struct { int a; long b; char c[3]; } *q = &(struct { int a; long b; char c[3]; }){.b = %s, .c = "hi"}; mix(q->a); mix(q->b); mix(q->c[0]); mix(q->c[2]); q->a = 5; mix(q->a); }\n' % self.small() if False else ''
        return s + '\tmix(acc); mix(((int[3]){1, 2})[2]); mix((unsigned char){%d}); mix(sizeof (long[%d]){0}); }\n' % (r.randint(0, 600), r.randint(1, 5))

    def s_once(self):
        """operands with side effects are evaluated exactly once"""
        r = self.r; n = r.randint(2, 6); t = r.choice(INTS)
        op = r.choice(['+=', '-=', '*=', '|=', '^=', '&=', '<<=', '>>=']) if 'unsigned' in t else r.choice(['|=', '^=', '&=', '>>='])
        rhs = r.randint(0, 6)
        s = '\t{ %s a[%d] = {%s}; unsigned k = 0; int i;\n' % (t, n, ', '.join(str(r.randint(0, 90)) for _ in range(n)))
        s += '\ta[k++ %% %d] %s %d; a[k++ %% %d]++; --a[++k %% %d]; mix(a[k++ %% %d]++); (*(a + (k++ %% %d))) %s %d;\n' % (n, op, rhs, n, n, n, n, op, rhs)
        return s + '\tmix(k); for (i = 0; i < %d; i++) mix(a[i]); }\n' % n

    def s_logic(self):
        r = self.r
        vs = ['x', 'y', 'z']
        def e(d):
            if d == 0 or r.random() < 0.25: return r.choice(['(x++ > %s)' % self.small(-3, 3), '(y-- < %s)' % self.small(-3, 3), '(++z & 1)', 'x', '!y', '(z == %s)' % self.small(-3, 3), '0', '1', '(d != 0)', '!d', '(p != 0)', '!q'])
            k = r.random()
            if k < 0.4: return '(%s && %s)' % (e(d - 1), e(d - 1))
            if k < 0.8: return '(%s || %s)' % (e(d - 1), e(d - 1))
            return '(%s ? %s : %s)' % (e(d - 1), e(d - 1), e(d - 1))
        s = '\t{ int x = %s, y = %s, z = %s, w = 5; double d = %s; int *p = &w, *q = 0;\n' % (self.small(-3, 3), self.small(-3, 3), self.small(-3, 3), r.choice(['0.0', '0.5', '-1.0']))
        for _ in range(r.randint(2, 6)): s += '\tmix(%s); mix(x); mix(y); mix(z);\n' % e(3)
        return s + '\t}\n'

    def s_conversions(self):
        r = self.r
        s = '\t{ double d = %s; float f = %s; long l = %s; unsigned long ul = %s; int i = %s; unsigned u = %s; _Bool b;\n' % (
            r.choice(['3.99', '-3.99', '0.5', '1e9', '-1e9', '65535.9', '4294967295.0', '9007199254740993.0', '1e18']), r.choice(['2.5f', '-0.75f', '16777216.0f', '1e9f']),
            r.choice(['-1L', '9223372036854775807L', '4294967296L', '-2147483649L', '123456789012L']), self.uval('unsigned long'), self.small(-300, 300), self.uval('unsigned'))
        s += '\tmix((long)d); mixd((float)d); mixd((double)f * 3); mixd((double)l); mixd((float)l); mixd((double)ul); mixd((float)ul); mixd((double)u); mixd(i); mixd((float)i / 4);\n'
        s += '\tmix((unsigned char)i); mix((signed char)i); mix((short)l); mix((unsigned short)ul); mix((int)l); mix((unsigned)l); mix((long)i); mix((unsigned long)i); mix((long)u);\n'
        s += '\tb = d; mix(b); b = f; mix(b); b = l; mix(b); b = (ul & 1) << 40; mix(b); b = 0.0; mix(b); b = i; mix(b); mix((_Bool)0.25); mix((_Bool)256); mix((_Bool)(char)256);\n'
        s += '\tmix((unsigned long)(d < 0 ? -d : d)); mix((unsigned)(f < 0 ? -f : f)); mix(i < u); mix(l < ul); mix(i < l); mix((char)i < u); mix(-1 < 0u); mix(-1L < 0u); mix(d > i); mix(f == i);\n'
        return s + '\tmixd(i / 2 + d / 2); mixd(u * 0.5f); mixd(ul * 2.0); mixd(l / 3.0f); mix(i / 2 * 2 + i % 2); mix(-7 / 2); mix(-7 % 2); mix(7 / -2); mix(7 % -2); mix(-7 >> 1); mix(1u << 31); mix(1L << 40); }\n'

    def s_static_local(self):
        r = self.r; f = self.id('cnt'); t = r.choice(['int', 'unsigned char', 'long', 'unsigned short'])
        self.top.append('static %s %s(void) { static %s n = %s; static int a[3] = {[1] = 4}; static const char *s = "xy" + 1; n += 3; a[n %% 3u] += n; return n + a[0] + a[1] + a[2] + *s; }\n' % (t, f, t, self.small(0, 90)))
        return '\t{ int i; for (i = 0; i < %d; i++) mix(%s()); }\n' % (r.randint(1, 9), f)

    def s_ptr_struct_array(self):
        r = self.r; st = self.mkstruct(); n = r.randint(1, 4); a = self.id('arr')
        s = '\t{ struct %s %s[%d]; struct %s *p; int i;\n' % (st[0], a, n, st[0])
        for i in range(n): s += self.fill(st, '%s[%d]' % (a, i), i * 13)
        lv = self.leaves(st, '')
        leaf = r.choice(lv)
        s += '\tfor (p = %s; p != %s + %d; ++p) %s(p->%s);\n' % (a, a, n, 'mixd' if leaf[1] in ('double', 'float') else 'mix', leaf[0][1:])
        s += '\tp = &%s[%d]; mix(p - %s); mix((char *)(p + 1) - (char *)p); mix(p == %s + %d); mix(p > %s);\n' % (a, n - 1, a, a, n - 1, a)
        leaf2 = r.choice(lv)
        s += '\t%s((*p)%s); %s(%s[%d]%s); %s((p - %d)->%s);\n' % ('mixd' if leaf2[1] in ('double', 'float') else 'mix', leaf2[0], 'mixd' if leaf2[1] in ('double', 'float') else 'mix', a, 0, leaf2[0],
                                                               'mixd' if leaf2[1] in ('double', 'float') else 'mix', n - 1, leaf2[0][1:])
        return s + '\t}\n'

    def s_many_args(self):
        r = self.r; f = self.id('many'); n = r.randint(7, 14)
        ts = [r.choice(INTS + ['double', 'float']) for _ in range(n)]
        body = ' '.join('%s(a%d);' % ('mixd' if t in ('double', 'float') else 'mix', i) for i, t in enumerate(ts))
        self.top.append('static long %s(%s) { %s return a0 > 0 ? 1 : 2; }\n' % (f, ', '.join('%s a%d' % (t, i) for i, t in enumerate(ts)), body))
        args = [('%d.5' % r.randint(-9, 9)) if t in ('double', 'float') else str(r.randint(0, 100)) for t in ts]
        return '\tmix(%s(%s));\n' % (f, ', '.join(args))

    def s_ternary_types(self):
        r = self.r
        return ('\t{ int i = %s; unsigned u = %s; long l = %s; double d = 1.5; int *p = &i; void *v = 0; char c = \'a\';\n'
                '\tmix(sizeof(1 ? i : l)); mix(sizeof(1 ? i : d)); mix(sizeof(1 ? c : c)); mix(sizeof(1 ? u : i)); mix((1 ? -1 : 0u) > 0); mix((0 ? 1u : -1) > 0); mix((1 ? -1 : 0L) > 0);\n'
                '\tmix((i ? p : 0) == p); mix((i ? (int *)0 : p) != 0); mix((i > 0 ? p : v) == (void *)p); mixd(i ? d : i); mixd(u ? l : d); mix(i ?: 7); }\n' % (self.small(-3, 3), self.small(0, 5), self.small(-9, 9))).replace(' mix(i ?: 7);', '')


    def s_vla(self):
        r = self.r; n = r.randint(2, 9); m = r.randint(1, 5); t = r.choice(['int', 'long', 'unsigned char', 'short'])
        s = '\t{ int n = %d, m = %d, i, j; long acc = 0;\n\t{ %s a[n]; for (i = 0; i < n; i++) a[i] = (%s)(i * %d + %s); for (i = n; i-- > 0;) acc = acc * 3 + a[i]; mix(sizeof a); mix(sizeof a / sizeof a[0]); }\n' % (n, m, t, t, r.randint(1, 9), self.small(0, 30))
        s += '\t{ %s b[n][m]; for (i = 0; i < n; i++) for (j = 0; j < m; j++) b[i][j] = (%s)(i * 10 + j * %d); for (i = 0; i < n; i++) acc += b[i][m - 1] - b[i][0]; mix(sizeof b); mix(sizeof b[0]); mix(sizeof *b / sizeof **b);\n' % (t, t, r.randint(1, 7))
        s += '\t{ %s (*p)[m] = b, (*q)[m] = &b[n - 1]; mix(p[n - 1][m - 1]); mix((char *)(p + 1) - (char *)p); mix(q - p); mix((*q)[0]); p++; mix((*p)[0]); p += n - 2; mix(p == q); --p; mix(q - p); mix((*(p--))[m - 1]); mix((*++p)[0]); p -= 1; mix(p - b); }\n' % t
        s += '\t{ %s c[2][n][m]; int k; for (k = 0; k < 2; k++) for (i = 0; i < n; i++) for (j = 0; j < m; j++) c[k][i][j] = (%s)(k * 100 + i * 10 + j); mix(c[1][n - 1][m - 1]); mix(c[0][n - 1][0]); mix(sizeof c); mix(sizeof c[0]); mix(sizeof c[0][0]); mix(&c[1][0][0] - &c[0][0][0]); mix(&c[1] - &c[0]); } }\n' % (t, t)
        s += '\tfor (i = 1; i < 4; i++) { %s c[i * 2]; c[i] = (%s)i; mix(sizeof c); mix(c[i]); }\n' % (t, t)
        return s + '\tmix(acc); mix(n++); { typeof(n) k = n; int d[k]; mix(sizeof d); } }\n'

    def s_vla_param(self):
        r = self.r; f = self.id('vp'); t = r.choice(['int', 'short', 'long', 'unsigned char'])
        self.top.append('static long %s(int n, int m, %s a[n][m], %s (*row)[m]) { long acc = 0; int i, j; for (i = 0; i < n; i++) for (j = 0; j < m; j++) acc = acc * 3 + a[i][j]; acc += (*row)[m - 1] + row[n - 1][0] + sizeof a[0] + sizeof *row; return acc; }\n' % (f, t, t))
        n, m = r.randint(1, 4), r.randint(1, 4)
        return '\t{ %s x[%d][%d]; int i, j; for (i = 0; i < %d; i++) for (j = 0; j < %d; j++) x[i][j] = (%s)(i * 7 + j); mix(%s(%d, %d, x, x)); }\n' % (t, n, m, n, m, t, f, n, m)

    def s_ptrptr(self):
        r = self.r; t = r.choice(INTS)
        return ('\t{ %s x = %s, y = %s, *p = &x, *q = &y, **pp = &p; %s arr[4] = {1, 2, 3, 4};\n\t**pp += 1; pp = &q; **pp += 2; *pp = &arr[2]; (*pp)[-1] += 10; (*pp)++; **pp = 7; mix(x); mix(y); mix(arr[0]); mix(arr[1]); mix(arr[2]); mix(arr[3]);\n'
                '\tmix(q - arr); mix(&arr[3] - q); mix(q > arr); mix(q <= &arr[3]); mix(*(q - 2)); mix(q[-3]); mix(p == &x); mix(*pp == q); { void *v = q; %s *back = v; mix(*back); mix((unsigned long)(back + 1) - (unsigned long)back); } }\n'
                % (t, self.small(0, 50), self.small(0, 50), t, t))

    def s_arith_runtime(self):
        r = self.r
        t1, t2 = r.choice(INTS), r.choice(INTS)
        a, b = r.randint(1, 120), r.randint(1, 120)
        s = '\t{ %s a = %d; %s b = %d; unsigned sh = %d;\n' % (t1, a, t2, b, r.randint(0, 7))
        s += '\tmix(a + b); mix(a - b); mix(a * b); mix(a / b); mix(a % b); mix(-a); mix(~a); mix(!a); mix(a & b); mix(a | b); mix(a ^ b); mix(a << sh); mix(a >> sh); mix(a < b); mix(a == b); mix(a && b); mix(a ? a : b);\n'
        s += '\tmix((a, b)); mix(a++ + b--); mix(a); mix(b); mix(a += b); mix(b -= 1); mix(a *= 2); mix(a /= 3); mix(b |= 8); mix(a %= 7); mix(a <<= 1); mix(b >>= 1); mix(sizeof(a + b)); mix(sizeof(a << b)); mix(sizeof -a); mix(sizeof !a); }\n'
        return s

    def s_typedef_typeof(self):
        r = self.r; T = self.id('T'); t = r.choice(INTS + ['double'])
        self.top.append('typedef %s %s;\ntypedef %s %s_arr[%d];\ntypedef struct { %s v; %s_arr a; } %s_rec;\n' % (t, T, T, T, r.randint(1, 4), T, T, T))
        isf = t == 'double'
        mx = 'mixd' if isf else 'mix'
        return ('\t{ %s x = %s; %s_arr arr = {x}; %s_rec rec = {.a = {[0] = x}, .v = 2}; typeof(x) y = x; typeof(arr[0]) *p = &arr[0]; typeof(%s_rec) copy = rec; typeof(x) z = y;\n'
                '\t%s(y); %s(*p); %s(copy.v); %s(copy.a[0]); %s(z); mix(sizeof(%s_arr)); mix(sizeof rec); mix(sizeof(typeof(arr))); mix(_Alignof(%s_rec)); }\n'
                % (T, ('%d.5' % r.randint(0, 9)) if isf else self.small(0, 100), T, T, T, mx, mx, mx, mx, mx, T, T))

    def s_alignas(self):
        r = self.r; a = r.choice([8, 16, 32, 64]); t = r.choice(['char', 'int', 'long'])
        return ('\t{ _Alignas(%d) %s x = 3; %s pad = 1; _Alignas(%d) %s y[3] = {4, 5, 6}; mix((unsigned long)&x %% %d); mix((unsigned long)y %% %d); mix(x + pad + y[2]); mix(_Alignof(%s)); }\n' % (a, t, t, a, t, a, a, t))

    def s_nested_calls(self):
        r = self.r; f = self.id('h'); g = self.id('k')
        self.top.append('static long %s(long a, long b) { return a * 3 + b; }\nstatic int %s(int a) { return a + 1; }\n' % (f, g))
        return '\tmix(%s(%s(%s(1)), %s(%s(2, 3), %s(4)))); mix(%s(%s(%s(%s(0))), %s)); { long (*fp)(long, long) = %s; mix(fp(%s(5), fp(1, 2))); }\n' % (f, g, g, f, f, g, f, g, g, g, self.small(), f, g)

    def s_init_exprs(self):
        r = self.r; st = self.mkstruct(); v = self.id('v')
        lv = self.leaves(st, '')
        picks = r.sample(lv, r.randint(1, min(4, len(lv))))
        items = []
        for p, t, kind, x in picks:
            val = 'k + %d' % r.randint(0, 5)
            if kind == 'bf': val = '(k & 1)'
            if t in ('double', 'float'): val = 'k * 0.5'
            items.append('%s = %s' % (p, val))
        s = '\t{ int k = %s; struct %s %s = {%s}, arr[2] = {[1] = {%s}};\n' % (self.small(0, 40), st[0], v, ', '.join(items), ', '.join(items[:1]))
        return s + self.dump(st, v) + self.dump(st, 'arr[0]') + self.dump(st, 'arr[1]') + '\t}\n'


    def s_addr_const(self):
        r = self.r; g = self.id('ga'); st = self.id('gs'); n = r.randint(2, 6); k = r.randrange(n)
        t = r.choice(INTS)
        self.top.append('static %s %s[%d] = {%s};\nstatic struct { int a; %s b[3]; char c; } %s = {1, {2, 3, 4}, 5};\n' % (t, g, n, ', '.join(str(r.randint(0, 90)) for _ in range(n)), t, st))
        f = self.id('gf')
        self.top.append('static int %s(int x) { return x * 2 + 1; }\n' % f)
        p = self.id('gp')
        self.top.append('static %s *%s_a = &%s[%d], *%s_b = %s + %d, *%s_c = %s.b + 1, *%s_d = &%s.b[2];\nstatic char *%s_s = "hello" + 2; static const char %s_t[] = "wx" "yz"; static int (*%s_f)(int) = %s, (*%s_g[2])(int) = {%s, &%s};\nstatic long %s_i = sizeof %s + sizeof %s[0]; static char *%s_e = &%s.c; static void *%s_v = &%s;\n'
                        % (t, p, g, k, p, g, n - 1, p, st, p, st, p, p, p, f, p, f, f, p, g, g, p, st, p, st))
        return ('\tmix(*%s_a); mix(*%s_b); mix(*%s_c); mix(*%s_d); mix(%s_a - %s); mix(%s_b - %s_a); mix(*%s_s); mix(%s_s[2]); mix(sizeof %s_t); mix(%s_t[3]); mix(%s_f(3)); mix(%s_g[1](4)); mix(%s_i); mix(*%s_e); mix(%s_v == (void *)&%s); mix(%s_d - %s_c);\n'
                % (p, p, p, p, p, g, p, p, p, p, p, p, p, p, p, p, p, st, p, p))

    def s_float_ops(self):
        r = self.r
        a, b = r.choice(['1.5', '0.1', '-2.25', '100.0', '3.0', '1e-3', '1677.0']), r.choice(['0.3', '2.0', '-0.5', '7.0', '10.0', '0.75'])
        return ('\t{ float f = %sf, g = %sf; double d = %s, e = %s; int i;\n'
                '\tmixd(f + g); mixd(f - g); mixd(f * g); mixd(f / g); mixd(d + e); mixd(d * e - f); mixd(d / e); mixd(-f); mixd(f + d); mixd((float)(d * e)); mix(f < g); mix(f <= g); mix(d == e); mix(d != e); mix(f > d); mix(!f); mix(!d); mix(f && d); mix(d || 0);\n'
                '\tfor (i = 0; i < 5; i++) { f = f * 0.5f + g; d = d / 3 + e * i; } mixd(f); mixd(d); f += 1; d -= 1; f *= g; d /= 2; mixd(f); mixd(d); f++; --d; mixd(f++); mixd(--d); mixd(f); mix((int)f); mix((long)d); mix((unsigned char)(int)f);\n'
                '\t{ double z = 0.0, inf = 1e308 * 10, nan = inf - inf; mix(inf > 1e308); mix(nan == nan); mix(nan != nan); mix(nan < 1); mix(!(nan >= 1)); mix(-z == z); mix(1 / inf == 0); mix(inf == inf); mix(nan ? 1 : 2); } }\n' % (a, b, a, b))

    def s_char_sign(self):
        r = self.r
        return ('\t{ char c = (char)%d; signed char s = (signed char)%d; unsigned char u = (unsigned char)%d; short h = (short)%d; unsigned short uh = (unsigned short)%d;\n'
                '\tmix(c); mix(s); mix(u); mix(h); mix(uh); mix(c >> 1); mix(s >> 2); mix(u >> 3); mix(c < 0); mix(s < u); mix(c == s); mix((unsigned)c); mix((unsigned)s); mix((int)u); mix(c * 2); mix(u * 300); mix(h * h); mix(uh * 3); mix(-u); mix(~u); mix(~c); mix(!s);\n'
                '\tc += 100; s -= 100; u += 200; h *= 3; uh -= 70000; mix(c); mix(s); mix(u); mix(h); mix(uh); c = s; u = c; mix(u); s = u; mix(s); h = u; uh = s; mix(h); mix(uh); mix(sizeof(c + c)); mix(sizeof(u + 1L)); mix((char)300); mix((unsigned char)-1); mix((short)70000); }\n'
                % (r.randint(-128, 255), r.randint(-128, 127), r.randint(0, 255), r.randint(-40000, 40000), r.randint(0, 70000)))

    def s_assign_chain(self):
        r = self.r; ts = [r.choice(INTS + ['double', 'float', '_Bool']) for _ in range(4)]
        v = r.choice(['100', '1', '3.75', '0.25', '7', '127'])
        mx = ['mixd' if t in ('double', 'float') else 'mix' for t in ts]
        return ('\t{ %s a; %s b; %s c; %s d;\n\ta = b = c = d = %s; %s(a); %s(b); %s(c); %s(d); d = (c = %s, c + 1); %s(d); a = (b = 5) + (c = 6); %s(a); %s((a = 2, b = 3, a + b)); a = b == c; %s(a); }\n'
                % (ts[0], ts[1], ts[2], ts[3], v if not all(t not in ('double', 'float') for t in ts) or '.' not in v else '7', mx[0], mx[1], mx[2], mx[3], self.small(0, 9), mx[3], mx[0], 'mix', mx[0])).replace('mix((a = 2, b = 3, a + b));', 'mixd((double)(a = 2, b = 3, a + b));')


    def s_scopes(self):
        r = self.r; g = self.id('gv'); T = self.id('Ty'); tag = self.id('tg'); E = self.id('EC')
        self.top.append('static int %s = 1000;\ntypedef long %s;\nstruct %s { int a; };\nenum { %s = 77 };\n' % (g, T, tag, E))
        v = [r.randint(1, 99) for _ in range(8)]
        s = '\t{ int x = %d; %s t1 = 5; struct %s s1 = {%d};\n' % (v[0], T, tag, v[1])
        s += '\tmix(x); mix(sizeof t1); mix(s1.a); mix(%s); mix(%s);\n' % (g, E)
        s += '\t{ long x = %d; mix(x); mix(sizeof x); { char x = %d; mix(x); mix(sizeof x); } mix(x); }\n' % (v[2], v[3] % 100)
        s += '\t{ int %s = %d; mix(%s); { extern int %s; } { int %s = %s + 1; mix(%s); } }\n' % (g, v[4], g, g, g, g, g) if False else '\t{ int %s = %d; mix(%s); { int %s = %d; mix(%s); } mix(%s); }\n' % (g, v[4], g, g, v[5], g, g)
        s += '\t{ int %s = %d; mix(%s); mix(sizeof %s); { typedef char %s; %s c = 1; mix(sizeof c); } }\n' % (T, v[6], T, T, T, T)
        s += '\t{ struct %s { char c[3]; } s2; mix(sizeof s2); { struct %s; struct %s *p = 0; mix(p == 0); } mix(sizeof(struct %s)); } mix(sizeof(struct %s));\n' % (tag, tag, tag, tag, tag)
        s += '\t{ int %s = %d; mix(%s); { enum { %s = 5 }; mix(%s); } mix(%s); } mix(%s);\n' % (E, v[7], E, E, E, E, E)
        s += '\tfor (int x = 0; x < 2; x++) { int y = x; { int x = 9; y += x; } mix(y); } mix(x);\n'
        s += '\t{ int x = x + 0 * 0 ? 1 : 1; mix(x >= 0 || x < 0); }\n' if False else ''
        lb = self.id('lab')
        s += '\t{ int %s = 3; goto %s; %s: mix(%s); }\n' % (lb, lb, lb, lb)
        s += '\tswitch (x & 1) { int z; case 0: z = 4; mix(z); break; case 1: z = 6; mix(z); break; }\n'
        s += '\t{ int i = 7; { int i = i * 0 + 2, j = i + 1; mix(i); mix(j); } mix(i); }\n' if False else '\t{ int i = 7; { int j = i + 1, i2 = j + i; mix(i2); mix(j); } mix(i); }\n'
        return s + '\tmix(x); mix(t1); }\n'

    def s_func_scopes(self):
        r = self.r; f = self.id('fs'); g = self.id('sv')
        self.top.append('static int %s = 3;\nstatic int %s(int %s, int a) { int r = %s + a; { int %s = 10; r += %s; } { extern int %s_ext; } return r + %s; }\nint %s_ext = 5;\n' % (g, f, g, g, g, g, f, g, f))
        h = self.id('proto')
        self.top.append('static int %s(int n, int (*cb)(int n, int m), int arr[n]);\nstatic int %s_cb(int a, int b) { return a * 10 + b; }\nstatic int %s(int n, int (*cb)(int, int), int *arr) { return cb(n, arr[0]) + n; }\n' % (h, h, h))
        return '\t{ int arr[2] = {%d, 2}; mix(%s(%d, %d)); mix(%s); mix(%s(2, %s_cb, arr)); }\n' % (r.randint(1, 9), f, r.randint(1, 50), r.randint(1, 50), g, h, h)


    def s_builtins(self):
        r = self.r; tag = self.id('O')
        self.top.append('struct %s { char a; int b; struct { short c; long d[3]; } in; double e; };\n' % tag)
        s = '\t{ int x = %s; long y = %s; float inf = __builtin_inff(), nan = __builtin_nanf("");\n' % (self.small(0, 9), self.small(0, 99))
        s += '\tmix(__builtin_offsetof(struct %s, b)); mix(__builtin_offsetof(struct %s, in.d[2])); mix(__builtin_offsetof(struct %s, e)); mix(__builtin_offsetof(struct %s, in.c));\n' % (tag, tag, tag, tag)
        s += '\tmix(__builtin_types_compatible_p(int, typeof(x))); mix(__builtin_types_compatible_p(long, int)); mix(__builtin_types_compatible_p(typeof(&x), int *)); mix(__builtin_types_compatible_p(int[2], int[]));\n'
        s += '\tmix(__builtin_constant_p(3)); mix(__builtin_expect(x > 2, 1)); mix(__builtin_expect(y, 5L) + 1); mix(inf > 1e38f); mix(nan != nan); mix(-inf < 0);\n'
        s += '\t{ char *m = __builtin_alloca(%d); int i; for (i = 0; i < %d; i++) m[i] = (char)(i * 3); mix(m[%d]); { int *q = __builtin_alloca(sizeof(int) * (x + 1)); q[x] = 7; mix(q[x]); } }\n' % (r.randint(4, 40), 4, r.randint(0, 3))
        s += '\tif (x < 0) __builtin_unreachable();\n'
        return s + '\tmix(_Generic(x, int: 1, long: 2, default: 3)); mix(_Generic(y, int: 1, long: 2, default: 3)); mix(_Generic(inf, float: 4, double: 5)); mix(_Generic(&x, int *: 6, default: 7)); mix(_Generic("s", char *: 8, default: 9)); mix(_Generic((char)1, char: 10, int: 11)); mix(_Generic(x + y, long: 12, int: 13)); }\n'

    def s_c23(self):
        r = self.r; E = self.id('FE'); T = r.choice(['unsigned char', 'short', 'long', 'unsigned', 'signed char'])
        v = {'unsigned char': 200, 'short': -300, 'long': 5000000000, 'unsigned': 4000000000, 'signed char': -100}[T]
        self.top.append('enum %s : %s { %s_A = %s, %s_B };\n' % (E, T, E, v, E))
        s = '\t{ enum %s e = %s_B; bool t = true, u = false; int *n = nullptr; int x = %s; typeof(x) y = x; typeof_unqual(const int) z = 3;\n' % (E, E, self.small(1, 50))
        s += '\tstatic_assert(sizeof(enum %s) == sizeof(%s)); static_assert(true, "msg"); static_assert(alignof(long) == 8);\n' % (E, T)
        s += '\tmix(e); mix(%s_A); mix(sizeof e); mix(e > 0); mix(t + u); mix(!t); mix(sizeof(bool)); mix(n == nullptr); mix(n == 0); n = &x; mix(n != nullptr); n = nullptr; mix(!n); mix(y); mix(z + 1);\n' % E
        s += '\tmix(0b1011); mix(0B1 + 0b0); mix(alignof(short)); mix(sizeof(typeof(e))); [[maybe_unused]] int unused = 1; mix(unused);\n'
        lb = self.id('lab')
        s += '\tgoto %s; %s: ; int after = x + 1; mix(after);\n' % (lb, lb)
        return s + '\t{ constexpr_free: ; } }\n'.replace('{ constexpr_free: ; } ', '')

    def s_unnamed_params(self):
        f = self.id('up')
        self.top.append('static int %s(int, int b, long) { return b * 2; }\nstatic int %s_v(void) { return 4; }\nstatic int %s_k() { return 5; }\n' % (f, f, f))
        return '\tmix(%s(1, %s, 3)); mix(%s_v()); mix(%s_k());\n' % (f, self.small(), f, f)


    def s_duff(self):
        r = self.r; n = r.randint(0, 23)
        return ('\t{ int count = %d, n, acc = 0, i = 0; if (count > 0) { n = (count + 3) / 4;\n\tswitch (count %% 4) { case 0: do { acc += ++i; case 3: acc += ++i * 2; case 2: acc += ++i * 3; case 1: acc += ++i * 5; } while (--n > 0); } }\n\tmix(acc); mix(i);\n'
                '\t{ int k, j, tot = 0; for (k = 0; k < 4; k++) switch (k) { case 0: for (j = 0; j < 3; j++) { if (j == 1) continue; tot += j; case 9: tot++; } break; default: switch (k & 1) { case 1: tot += 10; break; default: tot += 100; } } mix(tot); } }\n' % n)

    def s_float_cond(self):
        r = self.r
        v = r.choice(['0.0', '0.5', '-0.0', '1e-40f', '3.0'])
        return ('\t{ double d = %s; float f = (float)d; double z = 0.0, nan = (z / (z == 0 ? 0.0 : 1.0)) != (z / (z == 0 ? 0.0 : 1.0)) ? 0.0 / (z + 0.0 == 0 ? z : 1) : 0; int c = 0;\n'
                '\tif (d) c += 1; if (f) c += 2; if (!d) c += 4; while (f) { c += 8; f = 0; } c += d ? 16 : 32; c += (d && f) ? 64 : 0; c += (d || z) ? 128 : 0; for (f = 2; f; f -= 1) c += 256; do c += 512; while (z);\n'
                '\tmix(c); mix(d == 0); mix(d < z); mix(-d == d); mix((int)(d * 10)); mix(d ? (int)d : -1); mixd(d ? d : 1); mixd(c ? 1.5f : 2); mix(sizeof(c ? 1.5f : 2)); mix(sizeof(c ? 1 : 2L)); }\n' % v)

    def s_struct_chains(self):
        r = self.r; tag = self.id('SC'); f = self.id('mk')
        self.top.append('struct %s { int a[3]; struct { char c; long l; } in; double d; };\nstatic struct %s %s(int k) { struct %s r = {{k, k + 1, k + 2}, {(char)k, k * 1000L}, k / 2.0}; return r; }\n' % (tag, tag, f, tag))
        k = r.randint(1, 60)
        return ('\t{ struct %s v = %s(%d), w; int c = %d;\n\tmix(%s(%d).a[1]); mix(%s(%d).in.l); mixd(%s(%d).d); mix((c ? %s(1) : %s(2)).a[0]); mix((c ? v : %s(9)).in.c); w = c ? %s(5) : v; mix(w.a[2]); w = (mix(1), v); mix(w.in.l);\n'
                '\tmix((w = %s(7)).a[0]); mix(w.a[1]); mix(sizeof %s(1).a); mix(sizeof (c ? v : w)); { struct %s *p = &v; mix((*p).a[2]); mix(p->in.c); mix((&p->in)->l); mix((&(*p))->a[0]); mix(p[0].a[1]); } }\n'
                % (tag, f, k, r.randint(0, 1), f, k, f, k, f, k, f, f, f, f, f, f, tag))

    def s_sizeof_noeval(self):
        return ('\t{ int x = 1, a[5]; long y = 2; mix(sizeof(x++)); mix(x); mix(sizeof(y = 7)); mix(y); mix(sizeof(a) / sizeof(a[x++])); mix(x); mix(alignof(typeof(x++))); mix(x);\n'
                '\t{ int n = 3; mix(sizeof(int[n++])); mix(n); mix(sizeof(char[2][n])); } mix(sizeof(struct { char c; long l; })); mix(sizeof(union { char c[9]; int i; })); mix(sizeof((char)x + (char)x)); mix(sizeof \'a\'); mix(sizeof "abc"); mix(sizeof L"ab" / sizeof(int)); }\n')

    def s_array_completion(self):
        r = self.r; a = self.id('inc'); n = r.randint(2, 6)
        self.top.append('extern int %s[];\nstatic int %s_get(int i) { return %s[i]; }\nint %s[%d] = {[%d] = 9};\nstatic int %s_size(void) { return sizeof %s / sizeof %s[0]; }\nint %s_t[]; static int %s_tn(void) { return %s_t[0]; }\n'
                        % (a, a, a, a, n, n - 1, a, a, a, a, a, a))
        return '\tmix(%s_get(%d)); mix(%s_size()); mix(%s_tn());\n' % (a, n - 1, a, a)

    def s_bitfield_misc(self):
        r = self.r; tag = self.id('BM')
        w1, w2 = r.randint(1, 31), r.randint(1, 63)
        self.top.append('union %s { struct { unsigned lo : 4; unsigned hi : 4; _Bool f : 1; signed s : %d; } b; unsigned w; };\nstruct %s_l { long l : %d; unsigned long u : %d; long long m : 64; };\n' % (tag, w1, tag, w2, w2))
        return ('\t{ union %s u; struct %s_l q = {-1, -1, -1}; u.w = 0; u.b.lo = 0x1f; u.b.hi = 9; u.b.f = 2; u.b.s = -1; mix(u.b.lo); mix(u.b.hi); mix(u.b.f); mix(u.b.s); mix(u.w & 0x1ff); u.b.s = (1 << %d) - 1; mix(u.b.s); u.b.f = 0.5; mix(u.b.f);\n'
                '\tmix(q.l); mix(q.u); mix(q.m); q.l = 1L << %d; mix(q.l); q.u += 2; mix(q.u); mix(q.l < 0); mix(q.u > 0); mix(-q.u > 0); mix(sizeof(q.l + 0)); mix(u.b.lo - 1 < 0); mix(sizeof q); }\n' % (tag, tag, w1 - 1 if w1 > 1 else 0, w2 - 1))

    SNIPPETS = ['s_duff', 's_float_cond', 's_struct_chains', 's_sizeof_noeval', 's_array_completion', 's_bitfield_misc', 's_builtins', 's_c23', 's_unnamed_params', 's_scopes', 's_func_scopes', 's_addr_const', 's_float_ops', 's_char_sign', 's_assign_chain', 's_vla', 's_vla_param', 's_ptrptr', 's_arith_runtime', 's_typedef_typeof', 's_alignas', 's_nested_calls', 's_init_exprs', 's_enum', 's_array_sum', 's_array2d', 's_struct_copy', 's_struct_call', 's_bitfield_ops', 's_union', 's_switch', 's_goto', 's_loops', 's_recursion', 's_fptr', 's_varargs', 's_strings',
                's_compound_literal', 's_once', 's_logic', 's_conversions', 's_static_local', 's_ptr_struct_array', 's_many_args', 's_ternary_types']

    def program(self, nblocks=12):
        body = ''
        for k in range(nblocks):
            name = self.r.choice(self.SNIPPETS)
            body += '\t/* %s */\n' % name + getattr(self, name)() + '\tdone(%d);\n' % (k + 1)
        return PRE + ''.join(self.top) + 'int main(void) {\n' + body + '\treturn 0;\n}\n'


def run_one(seed):
    src = G(seed).program()
    d = tempfile.mkdtemp(prefix='dt4-')
    try:
        cf = os.path.join(d, 'p.c'); open(cf, 'w').write(src)
        r = subprocess.run(['clang', '-std=gnu2x', '-include', os.path.join(os.path.dirname(os.path.abspath(__file__)), 'c23compat.h'), '-w', '-O0'] + (['-funsigned-char'] if os.environ.get('CPROC_TARGET') in ('aarch64', 'riscv64') else []) + ['-fsanitize=undefined,float-cast-overflow,address', '-fno-sanitize-recover=all', '-o', os.path.join(d, 'p'), cf], capture_output=True, text=True)
        if r.returncode: return seed, 'gen-error', r.stderr[:500], src
        try:
            n = subprocess.run([os.path.join(d, 'p')], capture_output=True, text=True, timeout=30)
        except subprocess.TimeoutExpired:
            return seed, 'gen-timeout', '', src
        if n.returncode or 'runtime error' in n.stderr or 'Sanitizer' in n.stderr: return seed, 'gen-ub', n.stderr[:400], src
        r2 = subprocess.run(['clang', '-std=gnu2x', '-include', os.path.join(os.path.dirname(os.path.abspath(__file__)), 'c23compat.h'), '-w', '-O2'] + (['-funsigned-char'] if os.environ.get('CPROC_TARGET') in ('aarch64', 'riscv64') else []) + ['-o', os.path.join(d, 'p2'), cf], capture_output=True, text=True)
        n2 = subprocess.run([os.path.join(d, 'p2')], capture_output=True, text=True, timeout=30)
        if n2.stdout != n.stdout: return seed, 'gen-unstable', 'gcc -O0 and -O2 disagree', src
        c = subprocess.run([CPROC] + (['-t', os.environ['CPROC_TARGET']] if os.environ.get('CPROC_TARGET') else []) + [cf], capture_output=True, text=True)
        if c.returncode: return seed, 'cproc-reject', c.stderr[:400], src
        try:
            rv, out = qbei.run(c.stdout, max_steps=50_000_000)
        except Exception as e:
            return seed, 'il-' + type(e).__name__, str(e)[:300], src
        if out != n.stdout:
            bad = [x.split()[0] for x, y in zip(n.stdout.split('\n'), out.split('\n')) if x != y]
            names = [l.strip() for l in src.split('\n') if l.strip().startswith('/* s_')]
            return seed, 'MISMATCH', 'blocks %s' % [(b, names[int(b) - 1]) for b in bad[:6]], src
        return seed, 'ok', '', src
    finally:
        shutil.rmtree(d, ignore_errors=True)


def main():
    first, count = int(sys.argv[1]), int(sys.argv[2])
    jobs = int(sys.argv[sys.argv.index('-j') + 1]) if '-j' in sys.argv else 8
    os.makedirs('/tmp/dt4', exist_ok=True)
    from concurrent.futures import ProcessPoolExecutor
    stats = {}
    with ProcessPoolExecutor(jobs) as ex:
        for seed, status, detail, src in ex.map(run_one, range(first, first + count), chunksize=2):
            stats[status] = stats.get(status, 0) + 1
            if status != 'ok':
                print('seed %d: %s %s' % (seed, status, detail.replace('\n', ' ')[:400]), flush=True)
                open('/tmp/dt4/p%d.c' % seed, 'w').write(src)
    print(stats)


if __name__ == '__main__':
    main()
