#!/usr/bin/env python3
"""DISCOVERY AID ONLY - not a registered check.  Driver differential: the real `cproc` driver is run with stub tools
(cpp, cproc-qbe, qbe, as, ld) that log their argv, for the command lines of rules C17.a/C17.b; the logged invocations are
compared with the reference driver of props/c17.py (the same reference the static rule uses, here against the running
binary instead of the interpreted source).

usage: difftest8.py"""
import itertools, json, os, shutil, subprocess, sys, tempfile
HERE = os.path.dirname(os.path.abspath(__file__))
sys.path.insert(0, os.path.join(HERE, '..')); sys.path.insert(0, os.path.join(HERE, '..', 'lib'))
import facts
from props import c17

STUB = '''#!/bin/sh
# log argv (one JSON line), swallow stdin, produce the -o file or some output
python3 - "$0" "$@" <<'P' > "$DT8_LOG/$$"
import json, sys, os
print(json.dumps([os.path.basename(sys.argv[1])] + sys.argv[2:]))
P
cat > /dev/null 2>&1 < /dev/stdin &
out=""
prev=""
for a in "$@"; do if [ "$prev" = "-o" ]; then out="$a"; fi; prev="$a"; done
wait
if [ -n "$out" ] && [ "$out" != "-" ]; then echo stub > "$out"; else echo stub; fi
exit 0
'''

def main():
    prog = facts.programs()['cproc']
    C = c17.cfg(prog)
    d = tempfile.mkdtemp(prefix='dt8-')
    bindir = os.path.join(d, 'bin'); os.makedirs(bindir)
    shutil.copy('/repo/cproc', os.path.join(bindir, 'cproc'))
    for t in ('cproc-qbe', 'cpp', 'qbe', 'as', 'ld'):
        p = os.path.join(bindir, t); open(p, 'w').write(STUB); os.chmod(p, 0o755)
    work = os.path.join(d, 'w'); os.makedirs(os.path.join(work, 'dir.d')); os.makedirs(os.path.join(work, 'v1.2'))
    for n in ('x.c', 'x.h', 'x.i', 'x.qbe', 'x.s', 'x.S', 'x.o', 'x.a', 'noext', 'dir.d/y.c', 'lex.yy.c', 'v1.2/p.tab.c', '.c', 'a.', 'a.c', 'b.c', 'b.o', 'a.h', 'a.s', 'b.qbe', 'c.c', 'a.o', 'c.o', 'y.o', 'data', 'd.o'):
        open(os.path.join(work, n), 'w').write('int x;\n')
    cmds = []
    modes = [[], ['-c'], ['-S'], ['-E'], ['-emit-qbe']]
    names = ['x.c', 'x.h', 'x.i', 'x.qbe', 'x.s', 'x.S', 'x.o', 'x.a', 'noext', 'dir.d/y.c', 'lex.yy.c', 'v1.2/p.tab.c', '.c', 'a.']
    outs = [[], ['-o', 'out'], ['-oout']]
    for m in modes:
        for n in names:
            for o in outs: cmds.append(m + o + [n])
    for x in list(c17.XNAMES):
        for m in modes:
            for n in ('x.c', 'data'):
                for xf in (['-x', x], ['-x' + x]): cmds.append(m + xf + [n])
    pairs = [['a.c', 'b.c'], ['a.c', 'b.o'], ['a.h', 'b.c'], ['a.s', 'b.qbe'], ['a.c', '-x', 'assembler', 'b.c', '-x', 'none', 'c.c'], ['a.o', 'b.o', 'c.o']]
    for m in modes:
        for p in pairs:
            for o in ([], ['-o', 'out']): cmds.append(m + o + p)
    for o in (['-DX'], ['-D', 'X=1'], ['-UX'], ['-Iinc'], ['-I', 'inc'], ['-include', 'f.h'], ['-isystem', 'd'], ['-nostdinc'], ['-std=c11'], ['-P'], ['-MD'], ['-MT', 't'], ['-MF', 'f'], ['-Wp,-a,-b'], ['-M']):
        cmds.append(o + ['-E', 'x.c']); cmds.append(o + ['x.c'])
    for o in (['-Wa,-a,-b'], ['-Wa,--x']): cmds += [o + ['-c', 'x.s'], o + ['-c', 'x.c'], o + ['x.S']]
    for o in (['-Ld'], ['-L', 'd'], ['-s'], ['-static'], ['-Wl,-a,-b'], ['-nostdlib'], ['-pthread'], ['-lm'], ['-l', 'm']): cmds += [o + ['x.o'], ['x.o'] + o + ['y.o'], o + ['x.c']]
    for o in (['-g'], ['-O2'], ['-pipe'], ['-Wall'], ['-v']): cmds.append(o + ['-c', 'x.c'])
    for o in (['-cfoo'], ['-Ex'], ['-q'], ['--help'], ['-xfoo'], ['-emit-llvm'], ['-f'], ['-m64']): cmds.append(o + ['x.c'])
    stats = {}
    env = dict(os.environ, PATH=bindir + ':' + os.environ['PATH'])
    for f in cmds:
        log = os.path.join(d, 'log'); shutil.rmtree(log, ignore_errors=True); os.makedirs(log)
        env['DT8_LOG'] = log
        r = subprocess.run([os.path.join(bindir, 'cproc')] + f, cwd=work, env=env, capture_output=True, text=True, timeout=60)
        got = [json.loads(open(os.path.join(log, n)).read()) for n in sorted(os.listdir(log), key=int)]
        got = c17.normalise_temps(got)
        want = c17.reference(['cproc'] + f, C)
        key = ' '.join(f)
        if want[0] == 'usage':
            ok = r.returncode == 2 and not got
            det = 'expected a usage error before anything runs; exit %d, ran %s' % (r.returncode, [g[0] for g in got])
        else:
            w = [list(av) for av in want[1]]
            ok = sorted(map(json.dumps, got)) == sorted(map(json.dumps, w)) and r.returncode == 0
            det = ''
            if not ok:
                extra = [g for g in got if g not in w]; missing = [x for x in w if x not in got]
                det = 'exit %d; ran but not documented: %s; documented but not run: %s' % (r.returncode, extra[:2], missing[:2])
        st = 'ok' if ok else 'DIFF'
        stats[st] = stats.get(st, 0) + 1
        if not ok: print('cproc %s: %s %s' % (key, det, r.stderr.strip()[:100]), flush=True)
    print(stats)
    shutil.rmtree(d, ignore_errors=True)

if __name__ == '__main__':
    main()
