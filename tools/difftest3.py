#!/usr/bin/env python3
"""DISCOVERY AID ONLY - not a registered check.  Initialiser differential: the random initialiser lists of rule C07.a
(props/c07.py: gen_types, gen_inits) written out as C, for objects with static and with automatic storage, run natively
(gcc; only programs gcc accepts without any diagnostic under -pedantic-errors) and through tools/qbei.py on cproc's IL.
It cross-examines both the compiler and the reference semantics written for C07.a.

usage: difftest3.py <first seed> <count> [-j N]
"""
import os, random, re, subprocess, sys, tempfile, shutil
HERE = os.path.dirname(os.path.abspath(__file__))
sys.path.insert(0, HERE); sys.path.insert(0, os.path.join(HERE, '..')); sys.path.insert(0, os.path.join(HERE, '..', 'lib'))
import qbei
from props import c07

CPROC = os.environ.get('CPROC_QBE', '/repo/cproc-qbe')
CNAME = {'char': 'char', 'uchar': 'unsigned char', 'short': 'short', 'ushort': 'unsigned short', 'int': 'int', 'uint': 'unsigned', 'long': 'long', 'ulong': 'unsigned long'}

PRE = r'''
int printf(const char *, ...);
typedef unsigned long long u64;
static u64 chk = 14695981039346656037ull;
static void mix(u64 v) { chk = (chk ^ v) * 1099511628211ull; chk ^= chk >> 29; }
static void done(int n) { printf("%d %llu\n", n, chk); chk = 14695981039346656037ull; }
'''


class Decls:
    def __init__(self):
        self.text = []; self.names = {}

    def tname(self, t):
        """(declaration specifier text, declarator suffix) for Ty t, emitting record definitions on the way"""
        if t.kind == 'scalar': return CNAME[t.name], ''
        if t.kind == 'array':
            b, suf = self.tname(t.base)
            return b, '[%s]' % ('' if t.n is None else t.n) + suf
        key = id(t)
        if key not in self.names:
            nm = 'R%d' % (len(self.names) + 1)
            self.names[key] = nm
            body = ''
            for mn, mt, width in t.allmembers:
                if mt.kind in ('struct', 'union') and mn is None:
                    # anonymous member: inline definition
                    inner = self.inline(mt)
                    body += '\t%s;\n' % inner
                    continue
                b, suf = self.tname(mt)
                body += '\t%s %s%s%s;\n' % (b, mn or '', suf, '' if width is None else ' : %d' % width)
            self.text.append('%s %s {\n%s};\n' % (t.kind, nm, body))
        return '%s %s' % (t.kind, self.names[key]), ''

    def inline(self, t):
        body = ''
        for mn, mt, width in t.allmembers:
            if mt.kind in ('struct', 'union') and mn is None:
                body += '\t%s;\n' % self.inline(mt); continue
            b, suf = self.tname(mt)
            body += '\t\t%s %s%s%s;\n' % (b, mn or '', suf, '' if width is None else ' : %d' % width)
        return '%s {\n%s\t}' % (t.kind, body)


def leaves(t, path):
    """C expressions for every scalar leaf of an object of Ty t (arrays of unknown size are handled by the caller)"""
    if t.kind == 'scalar': return [path]
    if t.kind == 'array':
        out = []
        for i in range(t.n or 0): out += leaves(t.base, '%s[%d]' % (path, i))
        return out
    out = []
    for mn, mt, width in t.allmembers:
        if mn is None and mt.kind in ('struct', 'union'): out += leaves(mt, path)       # anonymous: members are reached directly
        elif mn is not None: out += leaves(mt, '%s.%s' % (path, mn))
    return out


def render(item, values, svnames):
    if item[0] == 'list':
        return '{' + ', '.join(''.join('.%s' % d[1] if d[0] == '.' else '[%d]' % d[1] for d in des) + (' = ' if des else '') + render(v, values, svnames) for des, v in item[1]) + '}'
    if item[0] == 'str': return '"%s"' % ''.join(chr(ord('a') + (k + len(item[3])) % 26) for k in range(item[1] - 1))
    if item[0] == 'sv': return svnames[item[2]]
    return str(values[item[1]])


def collect(item, labels, svs):
    if item[0] == 'list':
        for des, v in item[1]: collect(v, labels, svs)
    elif item[0] == 'e': labels.append(item[1])
    elif item[0] == 'sv': svs.append((item[1], item[2]))


def program(seed):
    rnd = random.Random(seed)
    T = c07.gen_types()
    D = Decls()
    body = []; glob = []
    names = sorted(T)
    nsec = 0
    for k in range(6):
        # only initialisers the reference of C07.a judges valid and unambiguous
        for _ in range(50):
            tn = rnd.choice(names); t = T[tn]
            item = c07.gen_inits(t, rnd)
            try: writes, _sz = c07.ref_init(t, item); break
            except (c07.RefError, c07.Unjudged): continue
        # known finding KF-C07-1 (automatic objects: an element that overrides part of a string / struct-valued initialiser): static storage only
        kf = any(v1[0] in ('str', 'sv') and any(o1 <= o2 and o2 + w2 <= o1 + w1 for o2, w2, v2, _ in writes[i + 1:]) for i, (o1, w1, v1, _) in enumerate(writes))
        labels, svs = [], []
        collect(item, labels, svs)
        values = {l: (i * 3 + 1) % 7 + 1 for i, l in enumerate(labels)}      # small enough for every bit-field, never zero
        svnames = {}
        b, suf = D.tname(t)
        pre_auto = ''
        for st, lab in svs:
            sb, ssuf = D.tname(st)
            vn = 'sv%d_%s' % (k, lab); svnames[lab] = vn
            # a fully initialised source object
            n = len(leaves(st, 'x'))
            glob.append('%s %s%s;\n' % (sb, vn, ssuf))
            pre_auto += ''.join('\t%s = %d;\n' % (lf.replace('x', vn, 1), (j * 5 + 2) % 7 + 1) for j, lf in enumerate(leaves(st, 'x')))
        init = render(item, values, svnames)
        on = 'o%d' % k
        if t.kind == 'array' and t.n is None:
            dump = lambda name: '\t{ unsigned i_; mix(sizeof %s); for (i_ = 0; i_ < sizeof %s / sizeof %s[0]; i_++) { %s } }\n' % (
                name, name, name, ' '.join('mix(%s);' % lf for lf in leaves(t.base, '%s[i_]' % name)))
        else:
            dump = lambda name: '\tmix(sizeof %s); %s\n' % (name, ' '.join('mix(%s);' % lf for lf in leaves(t, name)))
        nsec += 1
        if not svs:
            glob.append('static %s s%s%s = %s;\n' % (b, on, suf, init))
            body.append(dump('s' + on) + '\tdone(%d);\n' % nsec)
        else:
            body.append('\tdone(%d);\n' % nsec)
        nsec += 1
        if kf: body.append('\tdone(%d);\n' % nsec)
        else: body.append('\t{\n%s\t%s a%s%s = %s;\n%s\t}\n\tdone(%d);\n' % (pre_auto, b, on, suf, init, dump('a' + on), nsec))
    return PRE + ''.join(D.text) + ''.join(glob) + 'int main(void) {\n' + ''.join(body) + '\treturn 0;\n}\n'


def run_one(seed):
    src = program(seed)
    d = tempfile.mkdtemp(prefix='dt3-')
    try:
        cf = os.path.join(d, 'p.c'); open(cf, 'w').write(src)
        r = subprocess.run(['gcc', '-std=c2x', '-Wall', '-Wno-unused', '-Wno-missing-braces', '-pedantic-errors', '-O0',
                            '-fsanitize=undefined,address', '-o', os.path.join(d, 'p'), cf], capture_output=True, text=True)
        if r.returncode or 'warning' in r.stderr:
            # not a clean program for gcc: a diagnostic is also what cproc owes, unless it is only a warning gcc chooses to give
            c = subprocess.run([CPROC, cf], capture_output=True, text=True)
            return seed, 'skipped', ('cproc accepts' if c.returncode == 0 else 'cproc rejects') + ': ' + (r.stderr.split('\n')[1] if '\n' in r.stderr else r.stderr)[:160], src
        n = subprocess.run([os.path.join(d, 'p')], capture_output=True, text=True, timeout=30)
        if n.returncode or 'runtime error' in n.stderr: return seed, 'gen-ub', n.stderr[:300], src
        c = subprocess.run([CPROC, cf], capture_output=True, text=True)
        if c.returncode: return seed, 'cproc-reject', c.stderr[:300], src
        try:
            rv, out = qbei.run(c.stdout, max_steps=50_000_000)
        except Exception as e:
            return seed, 'il-' + type(e).__name__, str(e)[:300], src
        if out != n.stdout:
            bad = [x.split()[0] for x, y in zip(n.stdout.split('\n'), out.split('\n')) if x != y]
            return seed, 'MISMATCH', 'sections %s' % bad[:10], src
        return seed, 'ok', '', src
    finally:
        shutil.rmtree(d, ignore_errors=True)


def main():
    first, count = int(sys.argv[1]), int(sys.argv[2])
    jobs = int(sys.argv[sys.argv.index('-j') + 1]) if '-j' in sys.argv else 8
    os.makedirs('/tmp/dt3', exist_ok=True)
    from concurrent.futures import ProcessPoolExecutor
    stats = {}
    with ProcessPoolExecutor(jobs) as ex:
        for seed, status, detail, src in ex.map(run_one, range(first, first + count), chunksize=2):
            stats[status] = stats.get(status, 0) + 1
            if status not in ('ok', 'skipped') or (status == 'skipped' and '-v' in sys.argv):
                print('seed %d: %s %s' % (seed, status, detail.replace('\n', ' ')[:300]), flush=True)
                open('/tmp/dt3/p%d.c' % seed, 'w').write(src)
    print(stats)


if __name__ == '__main__':
    main()
