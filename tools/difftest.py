#!/usr/bin/env python3
"""DISCOVERY AID ONLY - not a registered check (the registered checks are static).

Generates random, self-contained, UB-free C programs, runs them natively (gcc, with -fsanitize=undefined to discard a
program should the generator slip) and interprets cproc's QBE IL for the same source with tools/qbei.py; a differing
result is a suspected miscompilation to be minimised by hand, explained, and then encoded as an instance of a static rule.

usage: difftest.py <first seed> <count> [--keep DIR] [-j N]
"""
import os, random, subprocess, sys, tempfile, shutil
sys.path.insert(0, os.path.dirname(os.path.abspath(__file__)))
import qbei

CPROC = os.environ.get('CPROC_QBE', '/repo/cproc-qbe')

ITYPES = {  # name: (bits, signed, rank)
    '_Bool': (1, False, 0), 'char': (8, True, 1), 'signed char': (8, True, 1), 'unsigned char': (8, False, 1), 'short': (16, True, 2), 'unsigned short': (16, False, 2),
    'int': (32, True, 3), 'unsigned': (32, False, 3), 'long': (64, True, 4), 'unsigned long': (64, False, 4), 'long long': (64, True, 5), 'unsigned long long': (64, False, 5),
}
FTYPES = ['float', 'double']
TAG = {'_Bool': 'b', 'char': 'c', 'signed char': 'sc', 'unsigned char': 'uc', 'short': 's', 'unsigned short': 'us', 'int': 'i', 'unsigned': 'u', 'long': 'l', 'unsigned long': 'ul',
       'long long': 'll', 'unsigned long long': 'ull', 'float': 'f', 'double': 'd'}

PRELUDE = r'''
int printf(const char *, ...);
typedef unsigned long long u64;
static void tr(int);
static u64 chk = 14695981039346656037ull;
static void mix(u64 v) { chk = (chk ^ v) * 1099511628211ull; chk ^= chk >> 29; }
static void mixd(double x) { mix(x > -1e15 && x < 1e15 ? (u64)(long long)(x * 64.0) : 12345u); }
#define IMIN (-2147483647 - 1)
#define LMIN (-9223372036854775807L - 1)
static int sadd_i(int a, int b) { return (b > 0 && a > 2147483647 - b) || (b < 0 && a < IMIN - b) ? a : a + b; }
static int ssub_i(int a, int b) { return (b < 0 && a > 2147483647 + b) || (b > 0 && a < IMIN + b) ? a : a - b; }
static int smul_i(int a, int b) { long long r = (long long)a * b; return r > 2147483647 || r < IMIN ? a : (int)r; }
static int sdiv_i(int a, int b) { return b == 0 || (a == IMIN && b == -1) ? a : a / b; }
static int smod_i(int a, int b) { return b == 0 || (a == IMIN && b == -1) ? a : a % b; }
static int sshl_i(int a, int b) { return a < 0 || b < 0 || b >= 31 || a > (2147483647 >> b) ? a : a << b; }
static int sshr_i(int a, int b) { return b < 0 || b >= 32 ? a : a >> b; }
static int sneg_i(int a) { return a == IMIN ? a : -a; }
static long sadd_l(long a, long b) { return (b > 0 && a > 9223372036854775807L - b) || (b < 0 && a < LMIN - b) ? a : a + b; }
static long ssub_l(long a, long b) { return (b < 0 && a > 9223372036854775807L + b) || (b > 0 && a < LMIN + b) ? a : a - b; }
static long smul_l(long a, long b) {
	if (a == 0 || b == 0) return 0;
	if (a == LMIN || b == LMIN) return a;
	if ((a > 0 ? a : -a) > 9223372036854775807L / (b > 0 ? b : -b)) return a;
	return a * b;
}
static long sdiv_l(long a, long b) { return b == 0 || (a == LMIN && b == -1) ? a : a / b; }
static long smod_l(long a, long b) { return b == 0 || (a == LMIN && b == -1) ? a : a % b; }
static long sshl_l(long a, long b) { return a < 0 || b < 0 || b >= 63 || a > (9223372036854775807L >> b) ? a : a << b; }
static long sshr_l(long a, long b) { return b < 0 || b >= 64 ? a : a >> b; }
static long sneg_l(long a) { return a == LMIN ? a : -a; }
static unsigned udiv_u(unsigned a, unsigned b) { return b == 0 ? a : a / b; }
static unsigned umod_u(unsigned a, unsigned b) { return b == 0 ? a : a % b; }
static unsigned ushl_u(unsigned a, unsigned b) { return b >= 32 ? a : a << b; }
static unsigned ushr_u(unsigned a, unsigned b) { return b >= 32 ? a : a >> b; }
static unsigned long udiv_ul(unsigned long a, unsigned long b) { return b == 0 ? a : a / b; }
static unsigned long umod_ul(unsigned long a, unsigned long b) { return b == 0 ? a : a % b; }
static unsigned long ushl_ul(unsigned long a, unsigned long b) { return b >= 64 ? a : a << b; }
static unsigned long ushr_ul(unsigned long a, unsigned long b) { return b >= 64 ? a : a >> b; }
static long d2l(double x) { return x > -1e15 && x < 1e15 ? (long)x : 77; }
'''


def promoted(t):
    """type after the integer promotions"""
    if t in FTYPES: return t
    bits, signed, rank = ITYPES[t]
    return 'int' if rank < 3 else t


def common(a, b):
    """usual arithmetic conversions"""
    if 'double' in (a, b): return 'double'
    if 'float' in (a, b): return 'float'
    a, b = promoted(a), promoted(b)
    if a == b: return a
    ba, sa, ra = ITYPES[a]; bb, sb, rb = ITYPES[b]
    if sa == sb: return a if ra >= rb else b
    (u, ru, bu), (s, rs, bs) = ((a, ra, ba), (b, rb, bb)) if not sa else ((b, rb, bb), (a, ra, ba))
    if ru >= rs: return u
    if bs > bu: return s
    return 'unsigned ' + s if s != 'long long' else 'unsigned long long'


class Var:
    def __init__(self, name, ty, kind='scalar', n=0, fields=None, ptr_to=None):
        self.name, self.ty, self.kind, self.n, self.fields, self.ptr_to = name, ty, kind, n, fields, ptr_to


class Gen:
    def __init__(self, seed, trace=False):
        self.trace = trace; self.ntr = 0
        self.callable_now = []; self.callees = []
        self.r = random.Random(seed)
        self.out = []
        self.globals = []
        self.structs = []     # (name, [(fname, type, width|None)])
        self.funcs = []       # (name, ret, [param types])
        self.uid = 0

    def fresh(self, p):
        self.uid += 1
        return '%s%d' % (p, self.uid)

    # ---------------------------------------------------------------- constants
    def const(self, ty):
        r = self.r
        if ty in FTYPES:
            v = r.choice([0.0, 1.0, -1.0, 0.5, 2.0, 3.25, -7.5, 100.0, 1e-3, 123456.75, 16777217.0, 0.1, 1e10, -2.5e-7])
            return repr(v) + ('f' if ty == 'float' else '')
        bits, signed, rank = ITYPES[ty]
        if ty == '_Bool': return r.choice(['0', '1'])
        edge = [0, 1, 2, 3, 7, 8, 15, 16, 31, 32, 63, 64, 127, 128, 255, 256, 32767, 32768, 65535, 65536, 2 ** 31 - 1, 2 ** 31, 2 ** 32 - 1, 2 ** 32, 2 ** 63 - 1, 2 ** 63, 2 ** 64 - 1]
        k = r.random()
        if k < 0.5: v = r.choice(edge)
        elif k < 0.8: v = r.randrange(0, 256)
        else: v = r.getrandbits(r.choice([8, 16, 32, 64]))
        lo, hi = (-(1 << (bits - 1)), (1 << (bits - 1)) - 1) if signed else (0, (1 << bits) - 1)
        if signed and r.random() < 0.4: v = -v
        v = max(lo, min(hi, v))
        if v == -(1 << 63): return '(-9223372036854775807L - 1)'
        if v == -(1 << 31) and rank <= 3: return '(-2147483647 - 1)'
        suf = ''
        if rank >= 4: suf = 'L' if rank == 4 else 'LL'
        if not signed and rank >= 3: suf = 'u' + suf
        s = str(v) if r.random() < 0.7 or v < 0 else r.choice(['%d', '0x%x', '0%o', '0X%X']) % v
        if v < 0: return '(%s%s)' % (s, suf)
        return s + suf

    # ---------------------------------------------------------------- expressions (pure unless noted)
    def lvalues(self, scope, want_int=None):
        """(C text, type) for every readable scalar lvalue"""
        out = []
        for v in scope:
            if v.kind == 'scalar': out.append((v.name, v.ty))
            elif v.kind == 'array':
                out.append(('%s[%s]' % (v.name, 'IDX'), v.ty))
            elif v.kind == 'struct':
                for fn, ft, w in v.fields:
                    if fn: out.append(('%s.%s' % (v.name, fn), self.bftype(ft, w)))
            elif v.kind == 'ptr':
                out.append(('(*%s)' % v.name, v.ptr_to))
            elif v.kind == 'sptr':
                for fn, ft, w in v.fields:
                    if fn: out.append(('%s->%s' % (v.name, fn), self.bftype(ft, w)))
        return out

    @staticmethod
    def bftype(ft, w):
        """type of a member in an expression: a bit-field narrower than int (or signed) is promoted to int"""
        if w is None or ft == '_Bool': return ft
        return 'unsigned' if ft == 'unsigned' and w == 32 else ('int' if ITYPES[ft][2] >= 3 else ft)

    def expr(self, scope, depth, ty=None, banned=()):
        """a pure expression; returns (text, type)"""
        r = self.r
        if ty is None: ty = r.choice(list(ITYPES) + FTYPES * 2)
        if depth <= 0 or r.random() < 0.18:
            lvs = [(t, x) for t, x in self.lvalues(scope) if t.split('[')[0].split('.')[0].split('->')[0].strip('(*)') not in banned]
            if lvs and r.random() < 0.7:
                t, x = r.choice(lvs)
                if 'IDX' in t:
                    v = [v for v in scope if v.kind == 'array' and t.startswith(v.name + '[')][0]
                    t = t.replace('IDX', '(unsigned)(%s) %% %du' % (self.conv(*self.expr(scope, min(depth - 1, 1), 'unsigned', banned), 'unsigned'), v.n))
                return t, x
            return self.const(ty), ty
        k = r.random()
        if k < 0.12:      # cast
            src = r.choice(list(ITYPES) + FTYPES)
            e, et = self.expr(scope, depth - 1, src, banned)
            if et in FTYPES and ty not in FTYPES:
                return '(%s)d2l(%s)' % (ty, e), ty
            return '(%s)(%s)' % (ty, e), ty
        if k < 0.24:      # unary
            e, et = self.expr(scope, depth - 1, ty, banned)
            op = r.choice(['-', '~', '!', '+'])
            if et in FTYPES:
                if op == '~': op = '-'
                return '%s(%s)' % (op, e), ('int' if op == '!' else et)
            pt = promoted(et)
            if op == '-' and ITYPES[pt][1]:
                return ('sneg_i(%s)' % e, 'int') if pt == 'int' else ('sneg_l(%s)' % e, 'long')
            return '%s(%s)' % (op, e), ('int' if op == '!' else pt)
        if k < 0.34:      # conditional
            c, _ = self.expr(scope, depth - 1, None, banned)
            a, at = self.expr(scope, depth - 1, ty, banned); b, bt = self.expr(scope, depth - 1, ty, banned)
            return '((%s) ? (%s) : (%s))' % (c, a, b), common(at, bt)
        if k < 0.44:      # logical
            a, _ = self.expr(scope, depth - 1, None, banned); b, _ = self.expr(scope, depth - 1, None, banned)
            return '((%s) %s (%s))' % (a, r.choice(['&&', '||']), b), 'int'
        if k < 0.58:      # comparison
            a, at = self.expr(scope, depth - 1, ty, banned); b, bt = self.expr(scope, depth - 1, r.choice([ty, None]), banned)
            return '((%s) %s (%s))' % (a, r.choice(['<', '>', '<=', '>=', '==', '!=']), b), 'int'
        if k < 0.62:      # comma
            a, _ = self.expr(scope, depth - 1, None, banned); b, bt = self.expr(scope, depth - 1, ty, banned)
            return '((%s), (%s))' % (a, b), bt
        if k < 0.66 and self.callable_now:      # call (at most one per full expression: the caller clears callable_now)
            f = r.choice(self.callable_now); self.callable_now = []
            name, ret, ptys = f
            args = [self.conv(*self.expr(scope, depth - 1, pt, banned), pt) if pt in ITYPES or pt in FTYPES else self.struct_value(scope, pt, banned) for pt in ptys]
            args = ['(%s)d2l(%s)' % (pt, a) if False else a for a, pt in zip(args, ptys)]
            return '%s(%s)' % (name, ', '.join(args)), ret
        # binary arithmetic
        a, at = self.expr(scope, depth - 1, ty, banned); b, bt = self.expr(scope, depth - 1, r.choice([ty, None]), banned)
        ct = common(at, bt)
        if ct in FTYPES:
            op = r.choice(['+', '-', '*', '/'])
            if op == '/': return '((%s) / ((%s) == 0 ? 1 : (%s)))' % (a, b, b), ct     # b is pure
            return '((%s) %s (%s))' % (a, op, b), ct
        bits, signed, rank = ITYPES[ct]
        op = r.choice(['+', '-', '*', '/', '%', '<<', '>>', '&', '|', '^'])
        if op in '&|^': return '((%s) %s (%s))' % (a, op, b), ct
        if op in ('<<', '>>'):
            # the result type of a shift is the promoted left operand
            lt = promoted(at) if at not in FTYPES else 'int'
            if at in FTYPES: a = '(int)d2l(%s)' % a
            if bt in FTYPES: b = '(int)d2l(%s)' % b
            lb, ls, lr = ITYPES[lt]
            fn = {('<<', True, 32): 'sshl_i', ('>>', True, 32): 'sshr_i', ('<<', True, 64): 'sshl_l', ('>>', True, 64): 'sshr_l',
                  ('<<', False, 32): 'ushl_u', ('>>', False, 32): 'ushr_u', ('<<', False, 64): 'ushl_ul', ('>>', False, 64): 'ushr_ul'}[(op, ls, lb)]
            # the helper takes the count in the type of the value: keep it small and non-negative
            return '%s(%s, (%s) & %d)' % (fn, a, b, 127), {'sshl_i': 'int', 'sshr_i': 'int', 'sshl_l': 'long', 'sshr_l': 'long', 'ushl_u': 'unsigned', 'ushr_u': 'unsigned', 'ushl_ul': 'unsigned long', 'ushr_ul': 'unsigned long'}[fn]
        if signed:
            sfx = '_i' if bits == 32 else '_l'
            fn = {'+': 'sadd', '-': 'ssub', '*': 'smul', '/': 'sdiv', '%': 'smod'}[op] + sfx
            return '%s(%s, %s)' % (fn, a, b), ('int' if bits == 32 else 'long')
        if op in '/%':
            fn = ('udiv' if op == '/' else 'umod') + ('_u' if bits == 32 else '_ul')
            return '%s(%s, %s)' % (fn, a, b), ('unsigned' if bits == 32 else 'unsigned long')
        return '((%s) %s (%s))' % (a, op, b), ct

    def struct_value(self, scope, sname, banned):
        cands = [v.name for v in scope if v.kind == 'struct' and v.ty == sname and v.name not in banned]
        cands += ['(*%s)' % v.name for v in scope if v.kind == 'sptr' and v.ty == sname and v.name not in banned]
        if cands and self.r.random() < 0.8: return self.r.choice(cands)
        fields = [f for f in self.struct_fields(sname)]
        items = []
        for fn, ft, w in fields:
            if not fn: continue
            e, et = self.expr(scope, 1, ft, banned)
            items.append(self.conv(e, et, ft))
        return '(struct %s){%s}' % (sname, ', '.join(items))

    def struct_fields(self, sname):
        return [s for s in self.structs if s[0] == sname][0][1]

    # ---------------------------------------------------------------- statements
    def full_expr(self, scope, depth, ty=None, banned=(), calls=True):
        """a full expression.  A call is indeterminately sequenced with the rest of the expression and every function may write every global, so an expression
        that contains a call reads nothing the callee can reach: only the caller's own non-pointer variables"""
        cands = [f for f in self.callees if f[1] in ITYPES or f[1] in FTYPES] if calls else []
        if cands and self.r.random() < 0.3:
            gn = {g.name for g in self.globals}
            scope = [v for v in scope if v.name not in gn and v.kind not in ('ptr', 'sptr')]
            self.callable_now = cands
        else:
            self.callable_now = []
        return self.expr(scope, depth, ty, banned)

    def stmt(self, scope, depth, ind, loopvars, in_loop):
        r = self.r; pad = '\t' * ind
        k = r.random()
        writable = [v for v in scope if v.name not in loopvars]
        if k < 0.38 or depth <= 0:
            return self.assign(scope, writable, ind)
        if k < 0.50:
            c, _ = self.full_expr(scope, 2)
            s = '%sif (%s) {\n%s%s}' % (pad, c, self.block(scope, depth - 1, ind + 1, loopvars, in_loop), pad)
            if r.random() < 0.5: s += ' else {\n%s%s}' % (self.block(scope, depth - 1, ind + 1, loopvars, in_loop), pad)
            return s + '\n'
        if k < 0.62:
            i = self.fresh('i'); n = r.randrange(1, 7)
            ity = r.choice(['int', 'unsigned', 'long', 'unsigned char', 'short'])
            iv = Var(i, ity)
            form = r.random()
            body = self.block(scope + [iv], depth - 1, ind + 1, loopvars | {i}, True)
            if form < 0.6:
                return '%sfor (%s %s = 0; %s < %d; %s) {\n%s%s}\n' % (pad, ity, i, i, n, r.choice(['%s++' % i, '++%s' % i, '%s += 1' % i]), body, pad)
            if form < 0.8:
                return '%s{ %s %s = %d;\n%swhile (%s-- > 0) {\n%s%s}\n%s}\n' % (pad, ity if ity != 'unsigned char' else 'int', i, n, pad, i, body, pad, pad)
            return '%s{ %s %s = 0;\n%sdo {\n%s%s} while (++%s < %d);\n%s}\n' % (pad, ity, i, pad, body, pad, i, n, pad)
        if k < 0.72:
            e, et = self.full_expr(scope, 2, r.choice(['int', 'unsigned', 'long', 'unsigned char', 'short', 'unsigned long']))
            if et in FTYPES: e = '(int)d2l(%s)' % e
            labels = r.sample([0, 1, 2, 3, 5, 8, 13, 127, 128, 255, 256, -1, -2, 65535, 2 ** 31 - 1, -2 ** 31 + 1], r.randrange(1, 5))
            s = '%sswitch (%s) {\n' % (pad, e)
            for lb in labels:
                s += '%scase %d%s:\n%s' % (pad, lb, 'L' if abs(lb) > 2 ** 31 else '', self.block(scope, depth - 1, ind + 1, loopvars, in_loop, few=True))
                if r.random() < 0.7: s += '%s\tbreak;\n' % pad
            if r.random() < 0.6: s += '%sdefault:\n%s' % (pad, self.block(scope, depth - 1, ind + 1, loopvars, in_loop, few=True))
            return s + '%s}\n' % pad
        if k < 0.76 and in_loop:
            c, _ = self.full_expr(scope, 1)
            return '%sif (%s) %s;\n' % (pad, c, r.choice(['break', 'continue']))
        if k < 0.86:      # struct copy / array element update / pointer retarget
            return self.aggregate_stmt(scope, writable, ind)
        if k < 0.93:
            # new block with a local
            ty = r.choice(list(ITYPES) + FTYPES); n = self.fresh('t')
            e, _ = self.full_expr(scope, 2, ty)
            nv = Var(n, ty)
            return '%s{ %s %s = %s;\n%s%s}\n' % (pad, ty, n, self.conv(e, _, ty), self.block(scope + [nv], depth - 1, ind + 1, loopvars, in_loop), pad)
        e, et = self.full_expr(scope, 2)
        return '%s%s(%s);\n' % (pad, 'mixd' if et in FTYPES else 'mix', e)

    def conv(self, e, et, ty):
        """convert expression text of type et for storing into ty without UB"""
        if et in FTYPES and ty not in FTYPES: return '(%s)d2l(%s)' % (ty, e)
        return e

    def assign(self, scope, writable, ind):
        r = self.r; pad = '\t' * ind
        targets = []
        for v in writable:
            if v.kind == 'scalar': targets.append((v.name, v.ty, v.name, None))
            elif v.kind == 'array': targets.append(('%s[IDX]' % v.name, v.ty, v.name, v))
            elif v.kind == 'struct':
                for fn, ft, w in v.fields:
                    if fn: targets.append(('%s.%s' % (v.name, fn), ft, v.name, None))
            elif v.kind == 'ptr': targets.append(('(*%s)' % v.name, v.ptr_to, v.name, None))
            elif v.kind == 'sptr':
                for fn, ft, w in v.fields:
                    if fn: targets.append(('%s->%s' % (v.name, fn), ft, v.name, None))
        if not targets: return '%s;\n' % pad
        t, ty, base, arr = r.choice(targets)
        gn_ = {g.name for g in self.globals}
        reach = base in gn_ or any(v.name == base and v.kind in ('ptr', 'sptr') for v in scope)
        if reach:
            _fe = self.full_expr
            self.full_expr = lambda sc, d, ty=None, banned=(), calls=True: _fe(sc, d, ty, banned, False)
            try: return self.assign_to(scope, t, ty, base, arr, ind)
            finally: del self.full_expr
        return self.assign_to(scope, t, ty, base, arr, ind)

    def assign_to(self, scope, t, ty, base, arr, ind):
        r = self.r; pad = '\t' * ind
        # pointers may alias any variable of their target type: ban reading through pointers and their possible targets when writing
        banned = {base}
        if 'IDX' in t:
            t = t.replace('IDX', '(unsigned)(%s) %% %du' % (self.conv(*self.full_expr(scope, 1, 'unsigned', banned, calls=False), 'unsigned'), arr.n))
        k = r.random()
        isf = ty in FTYPES
        if k < 0.5:
            e, et = self.full_expr(scope, 3, ty, self.alias_ban(scope, base))
            return '%s%s = %s;\n' % (pad, t, self.conv(e, et, ty))
        if k < 0.75 and ty != '_Bool':
            bits, signed, rank = ITYPES.get(ty, (0, True, 9))
            safe_signed_ops = ['&=', '|=', '^='] if not isf else []
            if isf: ops = ['+=', '-=', '*=']
            elif not signed or rank < 3: ops = ['+=', '-=', '*=', '&=', '|=', '^=']      # unsigned, or narrower than int: the arithmetic is done in int / wraps on conversion
            else: ops = safe_signed_ops
            if rank < 3 and '*=' in ops: pass
            op = r.choice(ops)
            ety = ty if not isf else r.choice(FTYPES)
            if not isf and signed and rank < 3:
                # keep the right operand small enough that int arithmetic cannot overflow
                e, et = self.full_expr(scope, 2, 'int' if op in ('+=', '-=', '*=') else ty, self.alias_ban(scope, base))
                if et in FTYPES: e = 'd2l(%s)' % e
                if op in ('+=', '-=', '*='): e = '(%s) & 0x7f' % e
                et = 'int'
            else:
                e, et = self.full_expr(scope, 2, ety, self.alias_ban(scope, base))
                if et in FTYPES and not isf: e = '(%s)d2l(%s)' % (ty, e)
                elif not isf and ITYPES[promoted(common(ty, et))][1]:
                    e = '(%s)(%s)' % (ty if not signed else 'unsigned', e)        # keep the operation unsigned
            return '%s%s %s %s;\n' % (pad, t, op, e)
        if k < 0.9 and not isf and ty != '_Bool':
            bits, signed, rank = ITYPES[ty]
            if not signed or rank < 3:
                form = r.choice(['%s++', '++%s', '%s--', '--%s'])
                if r.random() < 0.5: return '%smix(%s);\n' % (pad, form % t)
                return '%s%s;\n' % (pad, form % t)
        e, et = self.full_expr(scope, 2, ty, self.alias_ban(scope, base))
        return '%s%s = %s;\n' % (pad, t, self.conv(e, et, ty))

    def alias_ban(self, scope, base):
        """names that may denote the object being written (the variable itself and every pointer): they are not read in the same full expression
        only where an unsequenced side effect exists; plain assignment `x = f(x)` is fine, so nothing is banned for reads"""
        return ()

    def aggregate_stmt(self, scope, writable, ind):
        r = self.r; pad = '\t' * ind
        structs = [v for v in writable if v.kind == 'struct']
        if structs and r.random() < 0.6:
            v = r.choice(structs)
            src = self.struct_value(scope, v.ty, ())
            if r.random() < 0.3 and self.callees:
                fs = [f for f in self.callees if f[1] == 'struct ' + v.ty]
                if fs:
                    f = r.choice(fs)
                    self.callable_now = []
                    args = [self.conv(*self.expr(scope, 1, pt, ()), pt) if pt in ITYPES or pt in FTYPES else self.struct_value(scope, pt, ()) for pt in f[2]]
                    src = '%s(%s)' % (f[0], ', '.join(args))
            return '%s%s = %s;\n' % (pad, v.name, src)
        ptrs = [v for v in writable if v.kind == 'ptr']
        if ptrs:
            p = r.choice(ptrs)
            cands = []
            gnames = {g.name for g in self.globals}
            for v in scope:
                if p.name in gnames and v.name not in gnames: continue       # a global pointer must not outlive its target
                if v.kind == 'scalar' and v.ty == p.ptr_to and v.name in self.addressable: cands.append('&' + v.name)
                if v.kind == 'array' and v.ty == p.ptr_to and v.name in self.addressable: cands.append('&%s[%d]' % (v.name, r.randrange(v.n)))
                if v.kind == 'struct' and v.name in self.addressable:
                    for fn, ft, w in v.fields:
                        if fn and w is None and ft == p.ptr_to: cands.append('&%s.%s' % (v.name, fn))
            if cands: return '%s%s = %s;\n' % (pad, p.name, r.choice(cands))
        return self.assign(scope, writable, ind)

    def block(self, scope, depth, ind, loopvars, in_loop, few=False):
        n = self.r.randrange(1, 3 if few else 5)
        out = ''
        for _ in range(n):
            out += self.stmt(scope, depth, ind, loopvars, in_loop)
            if self.trace:
                self.ntr += 1; out += '%str(%d);\n' % ('\t' * ind, self.ntr)
        return out

    # ---------------------------------------------------------------- declarations
    def init_for(self, v, scope=()):
        r = self.r
        if v.kind == 'scalar': return self.const(v.ty)
        if v.kind == 'array':
            if r.random() < 0.3:
                items = ['[%d] = %s' % (i, self.const(v.ty)) for i in sorted(r.sample(range(v.n), r.randrange(1, v.n + 1)))]
                return '{%s}' % ', '.join(items)
            return '{%s}' % ', '.join(self.const(v.ty) for _ in range(r.randrange(1, v.n + 1)))
        if v.kind == 'struct':
            named = [(fn, ft, w) for fn, ft, w in v.fields if fn]
            def fc(ft, w):
                if w is None: return self.const(ft)
                bits, signed, rank = ITYPES[ft]
                lo, hi = (-(1 << (w - 1)), (1 << (w - 1)) - 1) if signed and ft != '_Bool' else (0, (1 << w) - 1)
                return str(r.randrange(lo, hi + 1))
            if r.random() < 0.4:
                pick = r.sample(named, r.randrange(1, len(named) + 1))
                return '{%s}' % ', '.join('.%s = %s' % (fn, fc(ft, w)) for fn, ft, w in pick)
            k = r.randrange(1, len(named) + 1)
            return '{%s}' % ', '.join(fc(ft, w) for fn, ft, w in named[:k])
        raise AssertionError(v.kind)

    def make_struct(self):
        r = self.r
        name = self.fresh('S'); fields = []
        for i in range(r.randrange(1, 6)):
            k = r.random()
            if k < 0.3:
                ft = r.choice(['int', 'unsigned', 'signed char', 'unsigned char', 'short', 'unsigned short', '_Bool'])     # bit-fields wider than int are promoted differently by gcc: left out
                bits = ITYPES[ft][0]
                w = 1 if ft == '_Bool' else r.randrange(1, bits + 1)
                if r.random() < 0.12: fields.append((None, ft, r.choice([0, w]))); continue
                fields.append(('f%d' % i, ft, w))
            else:
                fields.append(('f%d' % i, r.choice(list(ITYPES) + FTYPES), None))
        if not any(fn for fn, ft, w in fields): fields.append(('g', 'int', None))
        self.structs.append((name, fields))
        body = ''.join('\t%s %s%s;\n' % (ft, fn or '', '' if w is None else ' : %d' % w) for fn, ft, w in fields)
        self.out.append('struct %s {\n%s};\n' % (name, body))
        return name

    def declare(self, prefix, storage, allow_ptr_targets):
        """one variable declaration -> (Var, text)"""
        r = self.r
        k = r.random()
        name = self.fresh(prefix)
        if k < 0.5:
            v = Var(name, r.choice(list(ITYPES) + FTYPES))
        elif k < 0.7:
            v = Var(name, r.choice(list(ITYPES) + FTYPES), 'array', n=r.randrange(1, 9))
        elif k < 0.9 and self.structs:
            sn = r.choice(self.structs)
            v = Var(name, sn[0], 'struct', fields=sn[1])
        else:
            v = Var(name, r.choice(list(ITYPES) + FTYPES))
        decl = {'scalar': '%s %s' % (v.ty, name), 'array': '%s %s[%d]' % (v.ty, name, v.n), 'struct': 'struct %s %s' % (v.ty, name)}[v.kind]
        text = '%s%s = %s;\n' % (storage, decl, self.init_for(v))
        return v, text

    def program(self):
        r = self.r
        self.out = [PRELUDE]
        for _ in range(r.randrange(1, 4)): self.make_struct()
        self.addressable = set()
        # globals
        for _ in range(r.randrange(3, 9)):
            v, text = self.declare('g', r.choice(['', 'static ']), True)
            self.globals.append(v); self.out.append(text); self.addressable.add(v.name)
        # pointers to globals
        for _ in range(r.randrange(0, 3)):
            tg = [v for v in self.globals if v.kind == 'scalar']
            if not tg: break
            t = r.choice(tg); name = self.fresh('p')
            self.globals.append(Var(name, None, 'ptr', ptr_to=t.ty)); self.out.append('%s *%s = &%s;\n' % (t.ty, name, t.name))
        # functions, callees first
        self.callees = []
        nf = r.randrange(2, 6)
        for fi in range(nf):
            self.function('f%d' % fi)
        # main
        if self.trace:
            self.out.append('static void tr(int n) { u64 save = chk; chk = 0;\n%s\tprintf("T%%d %%llu\\n", n, chk); chk = save; }\n' % self.dump_globals())
        self.out.append('int main(void) {\n')
        scope = list(self.globals)
        body = ''
        for f in self.callees:
            name, ret, ptys = f
            self.callable_now = []
            args = [self.conv(*self.expr(scope, 1, pt, ()), pt) if pt in ITYPES or pt in FTYPES else self.struct_value(scope, pt, ()) for pt in ptys]
            call = '%s(%s)' % (name, ', '.join(args))
            if ret.startswith('struct'):
                t = self.fresh('r'); body += '\t{ %s %s = %s;\n' % (ret, t, call)
                for fn, ft, w in self.struct_fields(ret[7:]):
                    if fn: body += '\t%s(%s.%s);\n' % ('mixd' if ft in FTYPES else 'mix', t, fn)
                body += '\t}\n'
            elif ret in FTYPES: body += '\tmixd(%s);\n' % call
            elif ret == 'void': body += '\t%s;\n' % call
            else: body += '\tmix(%s);\n' % call
            body += self.dump_globals()
        self.out.append(body)
        self.out.append('\tprintf("%llu\\n", chk);\n\treturn (int)(chk & 127);\n}\n')
        return ''.join(self.out)

    def dump_globals(self):
        s = ''
        for v in self.globals:
            if v.kind == 'scalar': s += '\t%s(%s);\n' % ('mixd' if v.ty in FTYPES else 'mix', v.name)
            elif v.kind == 'array': s += '\t{ int k_; for (k_ = 0; k_ < %d; k_++) %s(%s[k_]); }\n' % (v.n, 'mixd' if v.ty in FTYPES else 'mix', v.name)
            elif v.kind == 'struct':
                for fn, ft, w in v.fields:
                    if fn: s += '\t%s(%s.%s);\n' % ('mixd' if ft in FTYPES else 'mix', v.name, fn)
            elif v.kind == 'ptr': s += '\t%s(*%s);\n' % ('mixd' if v.ptr_to in FTYPES else 'mix', v.name)
        return s

    def function(self, name):
        r = self.r
        ret = r.choice(list(ITYPES) + FTYPES + ['void'] + (['struct ' + s[0] for s in self.structs] if self.structs else []))
        nparam = r.randrange(0, 7)
        params = []
        ptys = []
        for i in range(nparam):
            k = r.random()
            pn = '%s_a%d' % (name, i)
            if k < 0.7:
                ty = r.choice(list(ITYPES) + FTYPES); params.append(Var(pn, ty)); ptys.append(ty)
            elif self.structs:
                sn = r.choice(self.structs); params.append(Var(pn, sn[0], 'struct', fields=sn[1])); ptys.append(sn[0])
            else:
                params.append(Var(pn, 'int')); ptys.append('int')
        sig = ', '.join(('struct %s %s' % (p.ty, p.name)) if p.kind == 'struct' else '%s %s' % (p.ty, p.name) for p in params) or 'void'
        text = '%s%s %s(%s) {\n' % (r.choice(['', 'static ']), ret, name, sig)
        scope = list(self.globals) + params
        locs = []
        for _ in range(r.randrange(1, 6)):
            v, t = self.declare(name + '_l', r.choice(['', '', '', 'static ']), False)
            locs.append(v); text += '\t' + t
        scope += locs
        # a local pointer to a local or global of matching type
        if r.random() < 0.5:
            tg = [v for v in locs + self.globals if v.kind == 'scalar']
            if tg:
                t = r.choice(tg); pn = self.fresh(name + '_p')
                text += '\t%s *%s = &%s;\n' % (t.ty, pn, t.name); scope.append(Var(pn, None, 'ptr', ptr_to=t.ty))
                self.addressable.add(t.name)
        if r.random() < 0.3:
            tg = [v for v in locs + self.globals if v.kind == 'struct']
            if tg:
                t = r.choice(tg); pn = self.fresh(name + '_q')
                text += '\tstruct %s *%s = &%s;\n' % (t.ty, pn, t.name); scope.append(Var(pn, t.ty, 'sptr', fields=t.fields))
        for v in locs: self.addressable.add(v.name)
        text += self.block(scope, 3, 1, set(), False)
        if ret == 'void': pass
        elif ret.startswith('struct'):
            text += '\treturn %s;\n' % self.struct_value(scope, ret[7:], ())
        else:
            e, et = self.full_expr(scope, 3, ret)
            text += '\treturn %s;\n' % self.conv(e, et, ret)
        text += '}\n'
        self.out.append(text)
        self.callees.append((name, ret, ptys))


def run_one(seed, keep=None):
    src = Gen(seed).program()
    d = tempfile.mkdtemp(prefix='dt%d-' % seed)
    try:
        cf = os.path.join(d, 'p.c'); open(cf, 'w').write(src)
        r = subprocess.run(['gcc', '-w', '-O0'] + (['-funsigned-char'] if os.environ.get('CPROC_TARGET') in ('aarch64', 'riscv64') else []) + [ '-fsanitize=undefined,float-cast-overflow', '-fno-sanitize-recover=all', '-o', os.path.join(d, 'p'), cf], capture_output=True, text=True)
        if r.returncode: return 'gen-error', 'gcc: ' + r.stderr[:400], src
        try:
            n = subprocess.run([os.path.join(d, 'p')], capture_output=True, text=True, timeout=10)
        except subprocess.TimeoutExpired:
            return 'gen-timeout', '', src
        if 'runtime error' in n.stderr or n.returncode < 0: return 'gen-ub', n.stderr[:300], src
        c = subprocess.run([CPROC] + (['-t', os.environ['CPROC_TARGET']] if os.environ.get('CPROC_TARGET') else []) + [cf], capture_output=True, text=True)
        if c.returncode != 0:
            return ('cproc-crash' if c.returncode not in (1,) else 'cproc-reject'), c.stderr[:300], src
        try:
            rv, out = qbei.run(c.stdout, max_steps=20_000_000)
        except qbei.Trap as e:
            return 'il-trap', str(e), src
        except qbei.ILError as e:
            return 'il-error', str(e), src
        except Exception as e:
            import traceback
            return 'interp-bug', traceback.format_exc()[-400:], src
        if out != n.stdout: return 'MISMATCH', 'native %s, cproc IL %s' % (n.stdout.strip(), out.strip()), src
        return 'ok', '', src
    finally:
        shutil.rmtree(d, ignore_errors=True)


def main():
    first, count = int(sys.argv[1]), int(sys.argv[2])
    keep = sys.argv[sys.argv.index('--keep') + 1] if '--keep' in sys.argv else None
    jobs = int(sys.argv[sys.argv.index('-j') + 1]) if '-j' in sys.argv else 8
    if keep: os.makedirs(keep, exist_ok=True)
    from concurrent.futures import ProcessPoolExecutor
    stats = {}
    with ProcessPoolExecutor(jobs) as ex:
        for seed, (status, detail, src) in zip(range(first, first + count), ex.map(run_one, range(first, first + count), chunksize=4)):
            stats[status] = stats.get(status, 0) + 1
            if status not in ('ok',):
                print('seed %d: %s %s' % (seed, status, detail.replace('\n', ' ')[:300]), flush=True)
                if keep and status not in ('gen-ub', 'gen-timeout'):
                    open(os.path.join(keep, 'p%d.c' % seed), 'w').write(src)
    print(stats)


if __name__ == '__main__':
    main()
