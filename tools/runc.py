#!/usr/bin/env python3
"""DISCOVERY AID ONLY - not a registered check.  Run a multi-file C program that cproc compiled: the IL of the given units
(files ending in .il, as printed by cproc-qbe) is linked like tools/selfhost.py does and interpreted by tools/qbei.py with
the Python libc of selfhost plus calloc / memmove / atoi / qsort-free extras.  Used to run real code bases (zstd) through
cproc without qbe, as and ld and compare with a native build.

usage: runc.py a.il b.il ... -- arg1 arg2 ..."""
import os, sys, time
sys.path.insert(0, os.path.dirname(os.path.abspath(__file__)))
import qbei, selfhost
from qbei import M32, M64, sx, Trap, ILError


def extra_externals(L):
    m = L.m
    A = lambda a, i: a[i][1]
    def calloc(mm, a):
        n = A(a, 0) * A(a, 1); p = L.malloc(n); m.mem[p:p + n] = bytes(n); return p
    def memmove(mm, a):
        d, s, n = A(a, 0), A(a, 1), A(a, 2)
        if n: m.chk(d, n); m.chk(s, n); m.mem[d:d + n] = bytes(m.mem[s:s + n])
        return d
    def atoi(mm, a):
        import re
        t = L.cstr(A(a, 0)); mt = re.match(rb'\s*[-+]?\d+', t)
        return (int(mt.group(0)) if mt else 0) & M32
    def qsort(mm, a):
        base, n, size, cmp = A(a, 0), A(a, 1), A(a, 2), A(a, 3)
        import functools
        items = [bytes(m.mem[base + i * size:base + (i + 1) * size]) for i in range(n)]
        pa = L.malloc(size); pb = L.malloc(size)
        fname = m.addrfn[cmp]
        def c(x, y):
            m.mem[pa:pa + size] = x; m.mem[pb:pb + size] = y
            return sx(m.call(fname, [('l', pa), ('l', pb)]) & M32, 32)
        items.sort(key=functools.cmp_to_key(c))
        for i, it_ in enumerate(items): m.mem[base + i * size:base + (i + 1) * size] = it_
        return None
    return {'$qsort': qsort, '$calloc': calloc, '$memmove': memmove, '$atoi': atoi, '$strncmp': lambda mm, a: ((lambda x, y: (x > y) - (x < y))(L.cstr(A(a, 0))[:A(a, 2)], L.cstr(A(a, 1))[:A(a, 2)])) & M32,
            '$getenv': lambda mm, a: 0, '$clock': lambda mm, a: 0}


def run(iltext, argv, max_steps=2_000_000_000):
    mod = qbei.Module(iltext)
    saved = dict(qbei.EXTERNALS)
    try:
        qbei.EXTERNALS.clear()
        for n in ['$qsort', '$malloc', '$free', '$realloc', '$calloc', '$memmove', '$atoi', '$strncmp', '$getenv', '$clock', '$memcpy', '$memset', '$memcmp', '$strlen', '$strcmp', '$strchr', '$strrchr', '$strstr', '$strpbrk', '$strtoull', '$strtod', '$tolower',
                  '$__ctype_b_loc', '$__errno_location', '$__assert_fail', '$abort', '$exit', '$getc', '$ungetc', '$fopen', '$freopen', '$fclose', '$ferror', '$fflush', '$printf', '$fprintf', '$vfprintf', '$snprintf', '$perror',
                  '$fputs', '$puts', '$fputc', '$putc', '$putchar']:
            qbei.EXTERNALS[n] = None
        mach = selfhost.Machine2.__new__(selfhost.Machine2)
        mach.heap_top = selfhost.HEAP; mach.depth_limit = 100000
        selfhost.Machine2.__init__(mach, mod, max_steps)
        L = selfhost.Libc(mach)
        qbei.EXTERNALS.update(selfhost.externals(L)); qbei.EXTERNALS.update(extra_externals(L))
        ptrs = []
        for a in argv:
            b = a.encode() + b'\0'; p = L.malloc(len(b)); mach.mem[p:p + len(b)] = b; ptrs.append(p)
        av = L.malloc(8 * (len(ptrs) + 1))
        for k, p in enumerate(ptrs): mach.store(av + 8 * k, 8, p)
        mach.store(av + 8 * len(ptrs), 8, 0)
        sys.setrecursionlimit(100000)
        try:
            r = mach.call('$main', [('w', len(ptrs)), ('l', av)]); status = (r or 0) & 255
        except selfhost.Exit as e:
            status = e.args[0]
        return status, bytes(L.streams[L.stdout]['out']), bytes(L.streams[L.stderr]['out']), mach.steps
    finally:
        qbei.EXTERNALS.clear(); qbei.EXTERNALS.update(saved)


if __name__ == '__main__':
    a = sys.argv[1:]
    k = a.index('--') if '--' in a else len(a)
    units = a[:k]; args = a[k + 1:]
    selfhost.ctype_table()
    il = selfhost.link([open(u).read() for u in units])
    t0 = time.time()
    try:
        st, out, err, steps = run(il, ['prog'] + args)
    except (Trap, ILError) as e:
        print('%s: %s' % (type(e).__name__, e)); sys.exit(3)
    sys.stdout.write(out.decode('latin-1')); sys.stderr.write(err.decode('latin-1'))
    sys.stderr.write('[status %d, %d IL instructions, %.1fs]\n' % (st, steps, time.time() - t0))
