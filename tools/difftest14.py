#!/usr/bin/env python3
"""DISCOVERY AID ONLY - not a registered check.  Scope differential: one identifier `x` declared in every way (object
with each storage class, function, typedef, enumeration constant, parameter, label-like tags) at file scope and in
nested blocks of one function, with uses in between.  Compared with gcc and clang: acceptance (when the two agree), a
compiler crash never, and - when accepted - the value `main` returns, which says which declaration each use resolved
to (run through tools/qbei.py).

usage: difftest14.py <first seed> <count> [-j N]"""
import os, random, re, subprocess, sys, tempfile, shutil
sys.path.insert(0, os.path.dirname(os.path.abspath(__file__)))
import qbei
CPROC = os.environ.get('CPROC_QBE', '/repo/cproc-qbe')

FILE = ['', 'int x = 100;', 'static int x = 200;', 'extern int x;', 'int x;', 'int x(void);', 'static int x(void);', 'typedef int x;', 'enum { x = 300 };', 'struct x { int m; };', 'int x(void) { return 400; }',
        'static int x(void) { return 500; }', 'extern int x; int x = 600;', '_Thread_local int x = 700;', 'extern int x[]; int x[2] = {800, 801};', 'int x[3];']
BLOCK = ['', 'int x = %d;', 'static int x = %d;', 'extern int x;', 'int x(void);', 'typedef int x;', 'enum { x = %d };', 'struct x { int m; };', 'extern int x(void);', 'x y = %d; (void)y;', 'int x[2] = {%d, 0};',
         'static int x[1] = {%d};', 'extern int x[];', 'char x = %d;', 'int *x = &(int){%d};', 'struct x *x = 0; (void)x;', 'int x = x_outer;', 'register int x = %d;', '_Thread_local static int x = %d;']
USE = ['acc += (int)sizeof(x);', 'acc += x;', 'acc += x();', 'acc += (x)3;', 'acc += x[0];', 'acc += *x;', 'acc += (int)sizeof(struct x);', 'acc += x + 1;', 'acc += (int)sizeof x;', '{ struct x s; s.m = 1; acc += s.m; }', 'acc += (int)(long)&x;']
DEFLATE = 'int x(void) { return 900; }'


def gen(seed):
    r = random.Random(seed)
    n = [10]
    def val():
        n[0] += 1; return n[0]
    def block(depth):
        out = []
        for _ in range(r.randint(1, 3)):
            k = r.random()
            if k < 0.45:
                b = r.choice(BLOCK)
                if b: out.append(b % val() if '%d' in b else b)
            elif k < 0.8:
                u = r.choice(USE)
                if '&x' in u: u = 'acc += (&x != 0);'
                out.append(u)
            elif depth > 0:
                out.append('{ ' + ' '.join(block(depth - 1)) + ' }')
        return out
    f = r.choice(FILE)
    body = block(3)
    params = r.choice(['void', 'void', 'int x', 'int x, int y'])
    call = {'void': 'f()', 'int x': 'f(40)', 'int x, int y': 'f(40, 2)'}[params]
    late = r.choice(['', '', DEFLATE, 'int x = 1000;', 'static int x = 1100;'])
    src = 'int x_outer = 7;\n%s\nint f(%s) {\n\tint acc = 0;\n\t%s\n\treturn acc;\n}\n%s\nint main(void) { return %s & 0xffff; }\n' % (f, params, '\n\t'.join(body), late, call)
    return src


def run_one(seed):
    src = gen(seed)
    d = tempfile.mkdtemp(prefix='dt14-')
    try:
        p = os.path.join(d, 'p.c'); open(p, 'w').write(src)
        g = subprocess.run(['gcc', '-std=c11', '-w', '-pedantic-errors', '-o', os.path.join(d, 'g'), p], capture_output=True, text=True)
        cl = subprocess.run(['clang', '-std=c11', '-w', '-pedantic-errors', '-o', os.path.join(d, 'c'), p], capture_output=True, text=True)
        c = subprocess.run([CPROC, p], capture_output=True, text=True)
        if c.returncode not in (0, 1): return seed, ('CRASH', 'rc=%d %s' % (c.returncode, c.stderr.strip()[-120:]), src)
        if (g.returncode == 0) != (cl.returncode == 0): return seed, None
        if g.returncode != 0:
            if c.returncode == 0: return seed, ('cproc-accepts', (g.stderr.split('error:')[1].split('\n')[0] if 'error:' in g.stderr else g.stderr[:100]).strip(), src)
            return seed, None
        if c.returncode != 0:
            return seed, ('cproc-rejects', c.stderr.strip()[:150], src)
        a = subprocess.run([os.path.join(d, 'g')], capture_output=True).returncode
        b = subprocess.run([os.path.join(d, 'c')], capture_output=True).returncode
        if a != b: return seed, None           # address-dependent or unspecified
        try:
            rv, out = qbei.run(c.stdout, max_steps=2_000_000)
        except Exception as e:
            return seed, ('il-error', str(e)[:150], src)
        if (rv & 0xff) != a: return seed, ('VALUE', 'gcc/clang %d, cproc %d' % (a, rv & 0xff), src)
        return seed, None
    finally:
        shutil.rmtree(d, ignore_errors=True)


def main():
    first, count = int(sys.argv[1]), int(sys.argv[2])
    jobs = int(sys.argv[sys.argv.index('-j') + 1]) if '-j' in sys.argv else 8
    from concurrent.futures import ProcessPoolExecutor
    stats = {}; shown = {}
    os.makedirs('/tmp/dt14', exist_ok=True)
    with ProcessPoolExecutor(jobs) as ex:
        for seed, res in ex.map(run_one, range(first, first + count), chunksize=4):
            if not res: stats['ok'] = stats.get('ok', 0) + 1; continue
            kind, det, src = res
            key = kind + ':' + re.sub(r'\d+', 'N', det)[:60]
            stats[kind] = stats.get(kind, 0) + 1
            if shown.get(key, 0) < 2:
                shown[key] = shown.get(key, 0) + 1
                open('/tmp/dt14/p%d.c' % seed, 'w').write(src)
                print('seed %d %s: %s' % (seed, kind, det), flush=True)
    print(stats)


if __name__ == '__main__':
    main()
