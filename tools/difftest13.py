#!/usr/bin/env python3
"""DISCOVERY AID ONLY - not a registered check.  Declarator differential: a random derived type (pointers with
qualifiers, arrays of known and unknown size, functions with prototypes, variadic and parameter adjustment) is written
twice - once as a single declarator the way a programmer writes it, once as a chain of typedefs built inside-out - and
declared for the same identifier: `extern <declarator>; extern Tn x;` must be accepted, and with one node of the second
type changed it must be rejected.  gcc and clang validate the generator (a pair they do not judge alike is dropped).
Also sizeof of the object type is compared when it is complete.

usage: difftest13.py <first seed> <count> [-j N]"""
import os, random, re, subprocess, sys, tempfile, shutil
CPROC = os.environ.get('CPROC_QBE', '/repo/cproc-qbe')
BASES = ['int', 'char', 'unsigned long', 'double', 'struct S', 'enum E', 'void', '_Bool', 'short']
PRE = 'struct S { int m; };\nenum E { E0 };\n'


def gen(r, d, ctx='obj'):
    """type tree: ('base', name, quals) | ('ptr', t, quals) | ('arr', t, n|None) | ('fn', ret, [params], variadic)"""
    if d == 0 or r.random() < 0.25:
        b = r.choice(BASES)
        if b == 'void' and ctx != 'ptr' and ctx != 'ret': b = 'int'
        return ('base', b, r.choice(['', '', '', 'const', 'volatile']) if not (b == 'void' and ctx == 'ret') else '')
    k = r.random()
    if k < 0.45: return ('ptr', gen(r, d - 1, 'ptr'), r.choice(['', '', 'const', 'restrict', 'volatile']))
    if k < 0.7 and ctx != 'ret':
        el = gen(r, d - 1, 'el')
        if el[0] == 'fn' or (el[0] == 'base' and el[1] == 'void') or (el[0] == 'arr' and el[2] is None): el = ('base', 'int', '')
        return ('arr', el, r.choice([None, 1, 2, 3, 7]) if ctx in ('obj', 'ptr', 'param') else r.choice([1, 2, 3, 7]))
    if ctx in ('el',): return ('ptr', gen(r, d - 1, 'ptr'), '')
    ret = gen(r, d - 1, 'ret')
    if ret[0] in ('arr', 'fn'): ret = ('ptr', ret, '')
    n = r.randint(0, 3); ps = []
    for _ in range(n):
        p = gen(r, d - 1, 'param')
        if p[0] == 'base' and p[1] == 'void': p = ('base', 'int', '')
        ps.append(p)
    return ('fn', ret, ps, bool(ps) and r.random() < 0.25)


def fix_restrict(t):
    """restrict only on pointers to object types"""
    if t[0] == 'ptr':
        inner = fix_restrict(t[1])
        q = t[2]
        if q == 'restrict' and inner[0] == 'fn': q = ''
        return ('ptr', inner, q)
    if t[0] == 'arr': return ('arr', fix_restrict(t[1]), t[2])
    if t[0] == 'fn': return ('fn', fix_restrict(t[1]), [fix_restrict(p) for p in t[2]], t[3])
    return t


def direct(t, inner):
    """C declarator text for type t around `inner` (the identifier or an inner declarator)"""
    if t[0] == 'base': return ('%s %s %s' % (t[2], t[1], inner)).strip()
    if t[0] == 'ptr':
        s = '*%s %s' % (t[2], inner) if t[2] else '*' + inner
        if t[1][0] in ('arr', 'fn'): s = '(' + s + ')'
        return direct(t[1], s)
    if t[0] == 'arr': return direct(t[1], '%s[%s]' % (inner, '' if t[2] is None else t[2]))
    ps = ', '.join(direct(p, '') for p in t[2]) + (', ...' if t[3] else '') if t[2] else 'void'
    return direct(t[1], '%s(%s)' % (inner, ps))


class Chain:
    def __init__(self): self.defs = []; self.n = 0
    def name(self, t):
        """typedef name denoting t, defining it inside-out"""
        self.n += 1; nm = 'T%d' % self.n
        if t[0] == 'base': self.defs.append('typedef %s %s %s;' % (t[2], t[1], nm))
        elif t[0] == 'ptr': self.defs.append('typedef %s *%s %s;' % (self.name(t[1]), t[2], nm))
        elif t[0] == 'arr': self.defs.append('typedef %s %s[%s];' % (self.name(t[1]), nm, '' if t[2] is None else t[2]))
        else:
            ps = ', '.join(self.name(p) for p in t[2]) + (', ...' if t[3] else '') if t[2] else 'void'
            self.defs.append('typedef %s %s(%s);' % (self.name(t[1]), nm, ps))
        return nm


def mutate(r, t):
    """change one node so that the type is no longer compatible (best effort: the reference compilers decide)"""
    k = t[0]
    if k == 'base':
        alt = r.choice([b for b in ['int', 'char', 'unsigned long', 'double', 'short'] if b != t[1]])
        return ('base', alt, t[2])
    if k == 'ptr':
        if r.random() < 0.4: return ('ptr', t[1], 'const' if t[2] != 'const' else 'volatile')
        return ('ptr', mutate(r, t[1]), t[2])
    if k == 'arr':
        if t[2] is not None and r.random() < 0.5: return ('arr', t[1], t[2] + 1)
        return ('arr', mutate(r, t[1]), t[2])
    if t[2] and r.random() < 0.6:
        i = r.randrange(len(t[2])); ps = list(t[2]); ps[i] = mutate(r, ps[i]); return ('fn', t[1], ps, t[3])
    if r.random() < 0.3 and t[2]: return ('fn', t[1], t[2], not t[3])
    return ('fn', mutate(r, t[1]), t[2], t[3])


def compile_ok(cmd, src, d, name):
    p = os.path.join(d, name); open(p, 'w').write(src)
    r = subprocess.run(cmd + [p], capture_output=True, text=True)
    return r.returncode == 0, (r.stderr.strip().split('\n')[0] if r.stderr else '')


def run_one(seed):
    r = random.Random(seed)
    out = []
    d = tempfile.mkdtemp(prefix='dt13-')
    try:
        for k in range(12):
            t = fix_restrict(gen(r, r.randint(1, 4)))
            same = r.random() < 0.5
            t2 = t if same else fix_restrict(mutate(r, t))
            c = Chain(); nm = c.name(t2)
            isfn = t[0] == 'fn'
            src = PRE + '\n'.join(c.defs) + '\nextern %s;\nextern %s x;\n' % (direct(t, 'x'), nm)
            g, gm = compile_ok(['gcc', '-std=c11', '-fsyntax-only', '-w', '-x', 'c'], src, d, 'p.c')
            cl, cm = compile_ok(['clang', '-std=c11', '-fsyntax-only', '-w', '-x', 'c'], src, d, 'p.c')
            if g != cl: continue
            cp, cpm = compile_ok([CPROC], src, d, 'p.c')
            if cp != g:
                out.append(('cproc-accepts' if cp else 'cproc-rejects', 'extern %s;  vs  %s' % (direct(t, 'x'), direct(t2, 'x')), cpm if not cp else gm))
        return seed, out
    finally:
        shutil.rmtree(d, ignore_errors=True)


def main():
    first, count = int(sys.argv[1]), int(sys.argv[2])
    jobs = int(sys.argv[sys.argv.index('-j') + 1]) if '-j' in sys.argv else 8
    from concurrent.futures import ProcessPoolExecutor
    stats = {}; shown = {}
    with ProcessPoolExecutor(jobs) as ex:
        for seed, out in ex.map(run_one, range(first, first + count), chunksize=2):
            for kind, e, det in out:
                stats[kind] = stats.get(kind, 0) + 1
                if shown.get(kind, 0) < 40:
                    shown[kind] = shown.get(kind, 0) + 1
                    print('seed %d %s: %s   %s' % (seed, kind, e, det), flush=True)
    print(stats)


if __name__ == '__main__':
    main()
