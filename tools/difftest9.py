#!/usr/bin/env python3
"""DISCOVERY AID ONLY - not a registered check.  Type compatibility differential: for every ordered pair of a list of types,
`extern T1 x; extern T2 x;` is accepted by gcc/clang iff the types are compatible (C11 6.2.7, 6.7p4); cproc-qbe must
agree (it is the same question rule C05.e asks of typecompatible(), here answered by the platform compilers)."""
import itertools, os, subprocess, sys, tempfile
CPROC = os.environ.get('CPROC_QBE', '/repo/cproc-qbe')
PRE = 'struct S { int a; }; struct T { int a; }; union U { int a; }; enum E { E0, E1 }; enum F { F0 = -1 }; typedef int I; typedef int A3[3];\n'
TYPES = ['int', 'unsigned', 'long', 'long long', 'unsigned long', 'char', 'signed char', 'unsigned char', 'short', 'float', 'double', '_Bool', 'I', 'enum E', 'enum F',
         'int *', 'const int *', 'int *const', 'volatile int *', 'char *', 'void *', 'int **', 'const int **', 'int *const *',
         'int [3]', 'int []', 'int [4]', 'A3', 'const int [3]', 'int [3][2]', 'int [][2]', 'int [3][3]', 'int (*)[3]', 'int (*)[]', 'int (*)[4]',
         'int (void)', 'int (int)', 'int ()', 'int (int, ...)', 'int (char)', 'int (const int)', 'int (int *)', 'int (int [])', 'int (int [3])', 'int (int (void))', 'int (int (*)(void))', 'long (int)', 'int (int, int)', 'void (void)',
         'int (*)(void)', 'int (*)(int)', 'int (*)()', 'struct S', 'struct T', 'union U', 'struct S *', 'struct T *', 'int (*[3])(int)', 'const int', 'volatile int', 'const char']

def decl(t, name):
    # place the identifier: before the first '(' that starts a declarator suffix or '[' ... types here are written abstractly: T (*)..., T [..], T (..)
    import re
    if '(*' in t: return t.replace('(*', '(*' + name, 1) if '(*[' not in t else t.replace('(*[', '(*' + name + '[', 1)
    m = re.search(r' (\[|\()', t)
    if m: return t[:m.start()] + ' ' + name + t[m.start() + 1:] if False else t[:m.start()] + ' ' + name + t[m.start():].lstrip()
    return t + ' ' + name

def accepts(cmd, src, d):
    p = os.path.join(d, 'p.c'); open(p, 'w').write(src)
    r = subprocess.run(cmd + [p], capture_output=True, text=True)
    return r.returncode == 0, r.stderr

def main():
    d = tempfile.mkdtemp(prefix='dt9-')
    stats = {}
    for t1, t2 in itertools.product(TYPES, repeat=2):
        src = PRE + 'extern %s;\nextern %s;\n' % (decl(t1, 'x'), decl(t2, 'x'))
        g, gerr = accepts(['gcc', '-std=c11', '-fsyntax-only', '-w'], src, d)
        c2, _ = accepts(['clang', '-std=c11', '-fsyntax-only', '-w'], src, d)
        c, cerr = accepts([CPROC], src, d)
        if g != c2: st = 'gcc-clang-disagree'
        elif g == c: st = 'ok'
        else: st = 'cproc-accepts' if c else 'cproc-rejects'
        stats[st] = stats.get(st, 0) + 1
        if st in ('cproc-accepts', 'cproc-rejects'):
            print('%s: extern %s; extern %s;   %s' % (st, decl(t1, 'x'), decl(t2, 'x'), (cerr if not c else gerr).strip().split('\n')[0][-110:]), flush=True)
    print(stats)

if __name__ == '__main__':
    main()
